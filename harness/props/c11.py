# C11 — null=X is exactly "replace every NULL node by X", whatever else is configured.
import json, copy, re
from common import *
import impl, l2, gens

THMS = ["C11_null_is_substitution", "C11_any_two_nulls", "C11_call_named_null_refuted"]
SENT = "␀NULL-SENTINEL␀"
XS = [("none", None), ("zero", 0), ("empty", ""), ("strNULL", "NULL"), ("list", []), ("nulldict", {"null": {}}), ("nest", {"n": [1, {"m": None}]})]

TEMPLATES = [
    "select f(null) from t", "select f(null, a, null) from t", "select case when a then null else b end from t",
    "select case a when null then 1 end from t", "select cast(null as int) from t", "select trim(both null from x) from t",
    "select substring(a from null for 2) from t", "select extract(day from null) from t",
    "insert into t (a, b) values (null, 1), (2, null)", "insert into t values (null)", "update t set a = null, b = f(null) where c = 1",
    "create table t (a int default null, b int null)", "select a from t where b in (null, 1)", "select a from t where b in (null)",
    "select null", "select null, null from t", "select a = null, null = a, a != null, a is null, a is not null, null is null from t",
    "select coalesce(null, null)", "select f(g(null)) from t", "select f(null) over (partition by null order by null) from t",
    "select a from t order by null", "select a from t group by null having null", "select a from t limit null",
    "select a between null and null from t", "select not null, - null from t", "select a from t where a <=> null",
    "select (null, 1) from t", "select [null, 1] from t", "select x.f(null) from t", "select a from t join u on null",
    "select null as n from t", "select distinct null from t", "with w as (select null) select * from w",
    "select sum(null) filter (where null) from t", "select decode(null)", "select a from t where f(null) = g(null, null)",
    "delete from t where a = f(null)", "select null union select null", "select if(null, null, null)",
    "merge into t using s on t.a = s.a when matched then update set b = null",
    # NULL inside a window frame bound: these fragments are simplified while the grammar is still matching and again at the end
    "select sum(x) over (order by b range between interval null day preceding and current row) from t",
    "select sum(x) over (order by b range f(null) preceding) from t",
    "select sum(x) over (order by b range between coalesce(null, 1) preceding and g(2, null) following) from t",
    # several chunks of one call (the DELIMITER pre-pass splits the text; every chunk has its own NULL slots)
    "delimiter $$\nselect f(null) from t $$\nselect 1 $$", "insert into t values (1, null);\ndelimiter //\nselect case when a then null else 1 end //",
    "delimiter $$\ncreate table t (a int default null) $$\ndelimiter ;\n", "select null; select f(null); select 2",
    "delimiter $$\nselect null, a from t $$\nupdate t set a = null where b = null $$\nselect 2 $$",
]


def substitute(tree, x):
    if tree == SENT:
        return copy.deepcopy(x)
    if type(tree) is list:
        return [substitute(v, x) for v in tree]
    if type(tree) is dict:
        return {k: substitute(v, x) for k, v in tree.items()}
    return tree


def substitute_default(tree, x):
    if tree == {"null": {}}:
        return copy.deepcopy(x)
    if type(tree) is list:
        return [substitute_default(v, x) for v in tree]
    if type(tree) is dict:
        return {k: substitute_default(v, x) for k, v in tree.items()}
    return tree


def count_sent(tree):
    if tree == SENT:
        return 1
    if type(tree) is list:
        return sum(count_sent(v) for v in tree)
    if type(tree) is dict:
        return sum(count_sent(v) for v in tree.values())
    return 0


def has_default_null(tree):
    if tree == {"null": {}}:
        return True
    if type(tree) is list:
        return any(has_default_null(v) for v in tree)
    if type(tree) is dict:
        return any(has_default_null(v) for v in tree.values())
    return False


def call(parser, sql, mode, ac, fmap, **kw):
    calls, _ = l2.MODES[mode]
    k = dict(calls=calls, all_columns=ac)
    if fmap:
        k["fmap" if parser == "common_parser" else "is_null"] = fmap
    k.update(kw)
    return impl.outcome(impl.ENTRY[parser], sql, **k)


def oracle(ctx, parser, sql, mode, ac, fmap):
    """returns number of comparisons; records violations"""
    st_s, base = call(parser, sql, mode, ac, fmap, null=SENT)
    st_d, dflt = call(parser, sql, mode, ac, fmap)
    n = 0
    if st_s != st_d:
        ctx.violation("input", dict(call=dict(entry=parser, sql=sql, calls=mode, all_columns=ac, fmap=fmap),
                                    observed="outcome depends on null=: %r vs %r" % (st_s, st_d), requires="null= never changes acceptance"))
        return 1
    if st_s != "ok":
        return 0
    # default result = sentinel result with sentinel -> {"null": {}}
    if canon(substitute(base, {"null": {}})) != canon(dflt):
        ctx.violation("input", dict(call=dict(entry=parser, sql=sql, calls=mode, all_columns=ac, fmap=fmap), null="default",
                                    returned=short(dflt, 1200), requires=short(substitute(base, {"null": {}}), 1200)))
    if not l2.is_plain(base):
        ctx.violation("input", dict(call=dict(entry=parser, sql=sql, calls=mode, all_columns=ac, fmap=fmap), null=SENT,
                                    returned=short(base, 1200), requires="every NULL node replaced by X: no internal NULL marker may remain"))
        return 1
    if mode != "simple" or fmap:
        st0, base0 = call(parser, sql, "simple", ac, None, null=SENT)
        if st0 == "ok" and count_sent(base0) != count_sent(base):
            ctx.violation("input", dict(call=dict(entry=parser, sql=sql, calls=mode, all_columns=ac, fmap=fmap), null=SENT, returned=short(base, 1200),
                                        requires="the same %d NULL nodes as under the default configuration: %s" % (count_sent(base0), short(base0, 800))))
            return 1
    literal_ambiguous = has_default_null(base)
    if literal_ambiguous and not re.search(r"null\s*\(", sql, re.I):
        # a {"null": {}} node that survives null=<sentinel>: a NULL that the null= option does not reach
        ctx.violation("input", dict(call=dict(entry=parser, sql=sql, calls=mode, all_columns=ac, fmap=fmap), null=SENT, returned=short(base, 1200),
                                    requires="every NULL node replaced by the null= value; a {\"null\": {}} node survived"))
        return 1
    for name, x in XS:
        st, got = call(parser, sql, mode, ac, fmap, null=x)
        n += 1
        want = substitute(base, x)
        if st != "ok" or canon(got) != canon(want):
            ctx.violation("input", dict(call=dict(entry=parser, sql=sql, calls=mode, all_columns=ac, fmap=fmap), null=x,
                                        returned=short(got, 1200), requires="parse(sql) with each NULL node replaced by X = " + short(want, 1200)))
            break
        if not literal_ambiguous and canon(got) != canon(substitute_default(dflt, x)):
            ctx.violation("input", dict(call=dict(entry=parser, sql=sql, calls=mode, all_columns=ac, fmap=fmap), null=x,
                                        returned=short(got, 1200), requires="substitute(parse(sql), X) = " + short(substitute_default(dflt, x), 1200)))
            break
    # the value written by this call stays: a later call (here one that parses nothing) must not reach back into the tree already returned
    st, got = call(parser, sql, mode, ac, fmap, null="FIRST") if (mode == "simple" or not fmap) else ("skip", None)
    if st == "ok":
        snap = copy.deepcopy(got)
        call(parser, "", mode, ac, fmap, null="SECOND")
        call(parser, " ; ", "simple", None, None, null="THIRD")
        n += 1
        if canon(got) != canon(snap):
            ctx.violation("history", dict(calls=[dict(entry=parser, sql=sql, calls=mode, all_columns=ac, fmap=fmap, null="FIRST"), dict(entry=parser, sql="", null="SECOND"), dict(entry=parser, sql=" ; ", null="THIRD")],
                                          observed="the tree returned by the first call changed: " + short(got, 800), requires="unchanged: " + short(snap, 800)))
    return n


def inject_nulls(rnd, sql):
    """NULL injected at atom positions: replace identifier-like / number tokens after SELECT by null, one at a time"""
    import re
    toks = list(re.finditer(r"\b(c\d+|\d+)\b", sql))
    out = []
    for m in rnd.sample(toks, min(len(toks), 3)):
        out.append(sql[:m.start()] + "null" + sql[m.end():])
    return out


def run(ctx):
    ctx.rule = ("statements = NULL-position templates + generator output with NULL injected at atom positions + corpus statements containing NULL; "
                "case = (dialect, sql, calls mode, all_columns, fmap) x 7 null values; distinct non-trivial = distinct accepted (sql, mode, all_columns, fmap) "
                "whose tree contains at least one NULL node; oracle: parse(null=X) == substitute(parse(null=sentinel), X) and == substitute(parse(), X)")
    ctx.prove("Props.C11", THMS)
    l2.U = impl.build_all()
    rnd = ctx.rng("c11")
    stmts = [("common_parser", s) for s in TEMPLATES]
    stmts += [(c["parser"], c["sql"]) for c in impl.corpus() if "null" in c["sql"].lower()]
    g = gens.G(rnd, null_rate=0.3)
    gen = [x for x in (g.statement() for _ in range(ctx.n(110, 500))) if len(x) <= 300]
    for s in list(gen):
        gen += inject_nulls(rnd, s)
    stmts += [("common_parser", s) for s in gen]
    stmts += [(p, s) for p in ("mysql_parser", "sqlserver_parser", "bigquery_parser") for s in TEMPLATES[::4]]
    # comparisons with a bare NULL become missing / exists whatever X is, whichever side the NULL stands on
    for opx, want in (("=", "missing"), ("==", "missing"), ("is", "missing"), ("<>", "exists"), ("!=", "exists"), ("is not", "exists")):
        for sqlt in ("select c1 %s null from t", "select null %s c1 from t", "select a from t where f(c1) %s null and b", "select a from t where null %s f(c1)"):
            sql = sqlt % opx
            for parser in ("common_parser", "mysql_parser"):
                for x in (None, 0, "", "X", {"null": {}}):
                    st, t = impl.outcome(impl.ENTRY[parser], sql, null=x)
                    ctx.count(1, ("fold", sql, parser, json.dumps(x)))
                    txt = json.dumps(t, default=str) if st == "ok" else ""
                    if st != "ok" or ('"%s"' % want) not in txt or '"eq"' in txt or '"neq"' in txt:
                        ctx.violation("input", dict(call=dict(entry=parser, sql=sql, null=x), returned=short(t, 300) if st == "ok" else [st, str(t)],
                                                    requires="the comparison with a bare NULL is folded to %s whatever null= is" % want))
    cases, meta = [], []
    for parser, sql in stmts:
        combos = [(m, ac, fm) for m in l2.MODES for ac in (None, "*") for fm in (None, {"f": "g"}, {"add": "sub", "sub": "add", "eq": "same"})]
        if not ctx.thorough:
            combos = [("simple", None, None)] + rnd.sample(combos, 2)
        for mode, ac, fmap in combos:
            n = oracle(ctx, parser, sql, mode, ac, fmap)
            ctx.count(max(n, 1))
            if n:
                ctx.count(0, (sql, mode, ac, json.dumps(fmap)))
            # model correspondence with two of the null values (not for frame bounds that hold a NULL: those fragments are simplified while the grammar
            # is still matching, their slots are recorded before the raw result that the model sees exists; the oracle above decides them)
            if re.search(r"\brange\b.*?\bnull\b.*?\b(preceding|following)\b", sql, re.I | re.S):
                continue
            for nn in ("default", "nest"):
                st, val, cap, x = l2.run_case(parser, sql, mode, nn, fmap, all_columns=ac)
                if st != "ok" or len(cap) != 1:
                    continue
                raw, out = cap[0]
                try:
                    term = l2.dump(raw, {})
                except l2.Outside as e:
                    continue  # C08 reports universe escapes
                cases.append(l2.coq_case(mode, fmap, x, term, out))
                meta.append(dict(entry=parser, sql=sql, calls=mode, null=nn, all_columns=ac, fmap=fmap, impl=short(out, 800)))
    ctx.sample(meta[0] if meta else None)
    ctx.sample(meta[-1] if meta else None)
    ctx.log("cases for the model:", len(cases))
    res, log = l2.run_model(ctx, "c11", cases)
    if res is None:
        ctx.obligation("correspondence evaluated", False, log[-2000:])
        ctx.violation("obligation", dict(what="correspondence check could not be evaluated by coqc", log=log[-2000:]), no_input=True)
        return
    ctx.traces = len(cases)
    ctx.obligation("correspondence: model scrub+slots+substitution = implementation on %d captured raw results" % len(cases), not res["mismatch"])
    ctx.obligation("premise good holds on every captured raw result", not res["ungood"], [meta[i] for i in res["ungood"][:3]])
    for i in res["mismatch"][:5]:
        ctx.violation("input", dict(call=meta[i], what="Model/Scrub.v (for which C11_null_is_substitution is proved) and the implementation's slot recording / substitution disagree on this input; the direct oracle passed on it",
                                    broken="correspondence Model.Scrub.parse_result vs utils.scrub + __init__._parse substitution loop"), no_input=True)
    for i in res["ungood"][:3]:
        ctx.violation("input", dict(call=meta[i], what="premise `good` fails on this raw result: an operator name collides with a keyword-argument name, C11_null_is_substitution does not cover it"), no_input=True)


def replay(ctx, rep):
    c = rep["call"]
    n0 = len(ctx.violations)
    oracle(ctx, c["entry"], c["sql"], c["calls"], c.get("all_columns"), c.get("fmap"))
    return 1 if len(ctx.violations) > n0 and not print("VIOLATION property=C11 replay=%s" % ctx.replay) else 0
