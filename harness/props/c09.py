# C09 — whitespace, comments, keyword case, optional AS and a final semicolon never change the tree.
import json, re, random, sys
sys.path.insert(0, "/verif/harness/props")
from common import *
import impl, gens, l0, peg, lexer

THMS = ["C09_layout_invariance", "C09_layout_invariance_total", "C09_all_queries_commute", "C09_case_invariance", "C09_case_invariance_total", "C09_fuel_independent", "C09_fuel_monotone", "C09_same_derivation", "C09_same_derivation_any_fuel", "C09_plain_sequence_refuted"]
HEADER = ("From Coq Require Import List NArith Bool.\nFrom MoSql Require Import Model.Peg Model.PegRun Model.PegSim Generated.Grammar.\nImport ListNotations.\nLocal Open Scope N_scope.\n")
FILL_WS = ["  ", "\n", "\t", " \n ", "\r\n", "\n\n\t"]
FILL_CM = [" /* c */ ", " -- c\n", " # c\n", "/**/", "--c\n", "#c\n", " /*c*/", " --\n", "\t/* a\nb */\n", "/***/", " /* c **/ ", "/** a * b / c ***/", " /*/ c */ "]
SITES_FILE = "/verif/corpus/c09_plain_sites.json"
TABLES = {"common_parser": "common", "mysql_parser": "mysql", "sqlserver_parser": "sqlserver", "bigquery_parser": "bigquery"}


def site_name(T, i):
    return re.sub(r"\s+", " ", str(T.els[i]))[:90]


def plain_sites(reg, T):
    cls = reg.ws_classes()
    out = {}
    for i, n in enumerate(T.nodes):
        if n["kind"] in ("seq", "many", "all") and cls[n["ws"]] == "plain":      # engines that skip nothing at all (token-internal sequences) commute with every layout
            if n["kind"] == "seq" and len(n["kids"]) <= 1:
                continue
            out.setdefault("%s:%s:%s" % (cls[n["ws"]], n["kind"], site_name(T, i)), []).append(i)
    return out


def keywords_of(reg):
    """the words that the grammar compares caselessly (keyword terminals of the live graph)"""
    ks = set()
    for x in reg.term_objs:
        if type(x).__name__ in ("CaselessKeyword", "CaselessLiteral"):
            m = getattr(x.parser_config, "match", None)
            if isinstance(m, str) and re.fullmatch(r"[A-Za-z_]+", m) and len(m) > 1:
                ks.add(m.lower())
    return ks


FUNCTION_WORDS = set(gens.FUNCS) | {"count", "min", "avg", "rank", "row_number", "dense_rank", "lag", "lead", "first_value", "ntile", "cast", "listagg", "percentile_cont"}


def recase(word, policy):
    if policy == "upper":
        return word.upper()
    if policy == "lower":
        return word.lower()
    return "".join(c.upper() if i % 2 else c.lower() for i, c in enumerate(word))


class Layout:
    """a statement as tokens and gaps; base = one blank in every non-empty gap"""

    def __init__(self, sql):
        self.toks, gaps, trailing = lexer.split_gaps(sql)
        self.gaps = ["" if (g == "" or k == 0) else " " for k, g in enumerate(gaps)]
        self.base = lexer.join(self.toks, self.gaps)
        self.open = [k for k, g in enumerate(self.gaps) if g]      # gaps that hold whitespace

    def variant(self, fill):
        """fill: {gap index: text} -> (sql, phi) with phi mapping positions of base to positions of the variant"""
        gaps = [fill.get(k, g) for k, g in enumerate(self.gaps)]
        for k in fill:
            # a comment filler glued to an operator token would change the token itself (`-` + `--c` reads as `--` + `-c`): keep them apart
            if k > 0 and gaps[k][:1] in "-/#" and self.toks[k - 1][0] == "op":
                gaps[k] = " " + gaps[k]
        sql = lexer.join(self.toks, gaps)
        shifts, pos = [], 0          # (start of the base gap, growth)
        for g0, g1, t in zip(self.gaps, gaps, self.toks):
            if len(g1) != len(g0):
                shifts.append((pos, len(g1) - len(g0)))
            pos += len(g0) + len(t[1])

        def phi(p):
            return p + sum(d for (g, d) in shifts if g < p)
        return sql, phi


def parse_or_err(entry, sql):
    st, got = impl.outcome(entry, sql)
    return (st, canon(got) if st == "ok" else None)


def commuting(reg, base, var, phi, log):
    """the hypothesis of C09_layout_invariance, evaluated with the real terminal and whitespace objects: -> list of logged queries that do not commute"""
    bad = []
    for q in log:
        if q[0] == "S":
            a = reg.ws_objs[q[1]].skip(base, q[2])
            b = reg.ws_objs[q[1]].skip(var, phi(q[2]))
            if b != phi(a):
                bad.append(q)
        elif q[0] == "T":
            a = peg.term_at(reg.term_objs[q[1]], base, q[2])
            b = peg.term_at(reg.term_objs[q[1]], var, phi(q[2]))
            if (a is None) != (b is None) or (a is not None and b != phi(a)):
                bad.append(q)
        else:
            if ("-" in base[q[1]:q[2]]) != ("-" in var[phi(q[1]):phi(q[2])]):
                bad.append(q)
    return bad


def coq_case(reg, T, tname, short, sql):
    m = peg.Model(T, sql)
    v = m.parse_all()
    tm, sk, dash = peg.oracle_tables(reg, sql)
    exp = 0 if v[0] == "fail" else (v[1] + 1 if v[0] == "ok" else 1000000)
    nl = lambda l: "[" + "; ".join(map(str, l)) + "]"
    cq = lambda q: "(Q%s %d %d)" % q
    return "(case_ok %s root_%s w0_%s 4000 %d [%s] [%s] %s %d [%s])" % (
        tname, short, short, len(sql), "; ".join("[" + "; ".join("(%d, %d)" % p for p in row) + "]" for row in tm),
        "; ".join(nl(r) for r in sk), nl(dash), exp, "; ".join(cq(q) for q in sorted(m.log))), v


def pool(ctx, rnd, n):
    """statements with exactly known token boundaries: the generators (optional AS marked), DDL/DML, windows"""
    import c19
    g = gens.G(rnd)
    g.mark_as = True
    g.accessors = True
    d = c19.D(rnd)
    out = []
    for i in range(n):
        k = i % 8
        g.n = 0
        d.n = 0
        if k < 4:
            s = g.query(2)
        elif k == 4:
            s = "select %s from t" % g.window() if hasattr(g, "window") else g.query(1)
        elif k == 5:
            s = d.create()[0]
        elif k == 6:
            s = rnd.choice([d.insert()[0], d.update()[0], d.other()[0]])
        else:
            s = g.statement()
        if len(s) <= 320:        # a long statement costs as much as fifty short ones and shows nothing more
            out.append(s)
    return out


_W = {}


def work(job):
    si, raw_sql, seed, tier, listed, want_cases = job
    listed = set(listed)
    if not _W:
        reg, tabs = peg.all_tables()
        _W.update(reg=reg, T=tabs[("common_parser", None)], P=peg.parser_for("common_parser"), kw=keywords_of(reg))
    reg, T, P, kw = _W["reg"], _W["T"], _W["P"], _W["kw"]
    rnd = random.Random(seed)
    res = dict(nvar=0, distinct=[], unexplained=[], failures={}, twin_bad=[], traces=0, model_cases=[])
    unexplained, failures = res["unexplained"], res["failures"]

    def seen(v):
        res["nvar"] += 1
        if len(res["distinct"]) < 400:
            res["distinct"].append(hash(v))
    for as_spelling in (("as ", "") if "\x01" in raw_sql else ("",)):
        sql = raw_sql.replace("\x01as\x01 ", as_spelling)
        lay = Layout(sql)
        st0, t0 = parse_or_err(impl.M.parse, lay.base)
        if st0 != "ok":
            continue
        if "\x01" in raw_sql and as_spelling == "":
            # optional AS: both spellings give one tree
            seen(("as", raw_sql))
            other = Layout(raw_sql.replace("\x01as\x01 ", "as "))
            if parse_or_err(impl.M.parse, other.base) != (st0, t0):
                unexplained.append(dict(variation="optional AS", sql=other.base, variant=lay.base))
        variants = []
        for k in lay.open:
            fills = FILL_WS + FILL_CM if tier != "quick" else rnd.sample(FILL_WS, 2) + rnd.sample(FILL_CM, 3)
            for f in fills:
                variants.append(({k: f}, "gap"))
        for _ in range(3):
            variants.append(({k: rnd.choice(FILL_WS + FILL_CM) for k in lay.open}, "combo"))
            variants.append(({k: rnd.choice(FILL_WS) for k in lay.open}, "combo-ws"))
        m = None
        for fill, kind in variants:
            var, phi = lay.variant(fill)
            seen(var)
            got = parse_or_err(impl.M.parse, var)
            if got == (st0, t0):
                continue
            # explain the difference with the model: which logged queries do not commute
            if m is None:
                m = peg.Model(T, lay.base)
                mv = m.parse_all()
            bad_q = commuting(reg, lay.base, var, phi, m.log)
            sites = set()
            for q in bad_q:
                if q[0] == "S":
                    for node in m.sites.get((q[1], q[2]), ()):
                        if node != "parser":
                            sites.add("%s:%s:%s" % (reg.ws_classes()[q[1]], T.nodes[node]["kind"], site_name(T, node)))
                else:
                    sites.add("terminal:%s" % (peg.term_sig(reg.term_objs[q[1]])[:60] if q[0] == "T" else "dash"))
            only_ws = all(not f.strip() for f in fill.values())
            if only_ws or not sites or not all(s in listed for s in sites):
                unexplained.append(dict(variation=kind, sql=lay.base, variant=var, got=short(got, 300), base=short(t0, 300), non_commuting_sites=sorted(sites)))
            else:
                # causal check: with the listed sites repaired (the plain engine answering like the comment-aware one) the model must accept the variant like the base
                cls = reg.ws_classes()
                cf = peg.Model(T, var, ws_override={cls.index("plain"): cls.index("aware")}).parse_all()
                want = ("ok", phi(mv[1])) if mv[0] == "ok" else mv
                if cf != want:
                    unexplained.append(dict(variation=kind, sql=lay.base, variant=var, got=short(got, 300), base=short(t0, 300), non_commuting_sites=sorted(sites),
                                            counterfactual="with every plain whitespace engine skipping comments the model still gives %r, not %r" % (cf, want)))
                else:
                    failures.setdefault(tuple(sorted(sites)), dict(sql=lay.base, variant=var))
        # case policies
        for pol in ("upper", "lower", "mixed"):
            toks = [(k, recase(t, pol) if k == "word" and (t.lower() in kw or (t.lower() in FUNCTION_WORDS and i + 1 < len(lay.toks) and lay.toks[i + 1][1] == "(")) else t) for i, (k, t) in enumerate(lay.toks)]
            var = lexer.join(toks, lay.gaps)
            seen(var)
            if parse_or_err(impl.M.parse, var) != (st0, t0):
                unexplained.append(dict(variation="case " + pol, sql=lay.base, variant=var))
        # trailing semicolon
        for tail in (";", " ;", ";\n"):
            seen(lay.base + tail)
            if parse_or_err(impl.M.parse, lay.base + tail) != (st0, t0):
                unexplained.append(dict(variation="semicolon", sql=lay.base, variant=lay.base + tail))
        # correspondence of the engine model on this statement (and on one comment variant of it)
        if si % 2 == 0:
            texts = [lay.base]
            if lay.open:
                texts.append(lay.variant({rnd.choice(lay.open): rnd.choice(FILL_CM)})[0])
            for text in texts:
                okk, ncalls, diffs, mm = peg.compare(T, P, text)
                res["traces"] += 1
                if diffs:
                    res["twin_bad"].append(dict(sql=text, diffs=[str(x) for x in diffs[:3]]))
                if si % 4 == 0 and len(text) < 160 and len(res["model_cases"]) < 2:
                    res["model_cases"].append((text, coq_case(reg, T, "T_common", "common", text)[0]))
        # the theorem on a safe variant: commuting log => same verdict moved by phi (checked with the twin)
        if si % 3 == 0 and lay.open:
            fill = {k: rnd.choice(FILL_CM) for k in lay.open}
            var, phi = lay.variant(fill)
            mb = peg.Model(T, lay.base)
            vb = mb.parse_all()
            if not commuting(reg, lay.base, var, phi, mb.log) and reg.ws_objs[T.w0].skip(var, 0) == phi(reg.ws_objs[T.w0].skip(lay.base, 0)):
                mvar = peg.Model(T, var)
                vv = mvar.parse_all()
                want = ("ok", phi(vb[1])) if vb[0] == "ok" else vb
                moved = {(q[0], q[1], phi(q[2])) if q[0] != "D" else ("D", phi(q[1]), phi(q[2])) for q in mb.log}
                if vb[0] != "abort" and vv[0] != "abort" and (vv != want or mvar.log != moved):
                    # C09_same_derivation: same outcome and exactly the moved queries
                    unexplained.append(dict(variation="theorem instance", sql=lay.base, variant=var, model_base=vb, model_variant=vv, same_queries=(mvar.log == moved)))
    return res


def run(ctx):
    ctx.rule = ("statements of the query / window / DDL / DML generators (optional AS marked by the generator) and corpus statements, tokens and gaps located by harness/lexer.py; every whitespace gap individually x "
                "%d whitespace fillers x %d comment fillers, random combinations over all gaps, 3 case policies on keyword / function / type words, both AS spellings, trailing semicolon; "
                "distinct non-trivial = distinct (statement, variation) pairs whose base statement parses" % (len(FILL_WS), len(FILL_CM)))
    ok, out = ctx.prove("Props.C09", THMS)
    known = ctx.finding_keys()
    rnd = ctx.rng("c09")
    try:
        reg, tabs = peg.all_tables()
    except Exception as e:
        ctx.obligation("translator: every element class and raising parse action of the live grammar is modelled", False, repr(e))
        ctx.violation("obligation", dict(what="the grammar translator failed closed", error=repr(e)), no_input=True)
        return
    ctx.obligation("translator: every element class and raising parse action of the live grammar is modelled (%d nodes, %d terminals)" % (len(tabs[("common_parser", None)].nodes), len(reg.term_objs)), True)
    T = tabs[("common_parser", None)]
    P = peg.parser_for("common_parser")
    kw = keywords_of(reg)

    # ---- table obligations, evaluated by Coq on the generated tables
    names = ["common", "mysql", "sqlserver", "bigquery"] if ctx.tier == "quick" else ["common", "common_star", "mysql", "mysql_star", "sqlserver", "sqlserver_star", "bigquery", "bigquery_star"]
    checks = ["simb T_%s T_%s (id_rel (length T_%s)) [] [] && inb (root_%s, root_%s) (id_rel (length T_%s))" % ((n,) * 6) for n in names]
    py_sites = {}
    for key, Tk in tabs.items():
        sname = TABLES[key[0]] + ("_star" if key[1] else "")
        ps = plain_sites(reg, Tk)
        py_sites[sname] = ps
        if sname in names:
            ids = sorted(i for l in ps.values() for i in l)
            checks.append("list_eqb (map fst (ws_sites T_%s (WS_AWARE ++ WS_NONE))) [%s]" % (sname, "; ".join(map(str, ids))))
    hdr = HEADER + "Fixpoint list_eqb (a b : list N) : bool := match a, b with [], [] => true | x :: r, y :: s => (x =? y) && list_eqb r s | _, _ => false end.\n"
    bad, log = l0.run_checks(ctx, "c09_tab", hdr, checks, shard=1)
    if bad is None:
        ctx.obligation("table obligations evaluated", False, log[-1500:])
        ctx.violation("obligation", dict(what="the table obligations could not be evaluated by coqc", log=log[-1500:]), no_input=True)
        bad = []
    ctx.obligation("table condition: simb T T id = true (every child id resolves, MatchAll children distinct) for %s" % ", ".join(names), not [b for b in bad if b < len(names)])
    ctx.obligation("the whitespace sites computed by Coq (ws_sites) on the generated tables = the sites the translator reports", not [b for b in bad if b >= len(names)])
    for b in bad:
        ctx.violation("obligation", dict(what="table obligation false", check=checks[b][:200]), no_input=True)

    # ---- the exclusion set: sequence / repetition nodes that were built outside the comment-aware whitespace block
    listed = set()
    for k, f in known.items():
        for s in f.get("sites", []):
            listed.add(s)
    current = set()
    for sname, ps in py_sites.items():
        current |= set(ps)
    new_sites = sorted(current - listed)
    ctx.obligation("exclusion set: the %d sequence / repetition nodes that do not skip comments are the listed ones" % len(current), not new_sites, str(new_sites[:5]))
    for k, f in known.items():
        if f.get("sites"):
            live = [s for s in f["sites"] if s in current]
            if live:
                ctx.known(k, "%s (%d sites, e.g. %s)" % (f["what"], len(live), live[0]))

    # ---- optional AS over the whole vocabulary of the grammar: for every keyword-like word, the alias spelt with and without AS
    import c07
    need_as = set()
    for k, f in known.items():
        need_as |= set(f.get("words", []))
    new_words = []
    for w in c07.grammar_words():
        for pn, a, b in (("column alias", "select a as %s from t", "select a %s from t"), ("table alias", "select a from t as %s", "select a from t %s"),
                         ("column alias", "select a AS %s, b from t", "select a %s, b from t")):
            ra, rb = parse_or_err(impl.M.parse, a % w), parse_or_err(impl.M.parse, b % w)
            ctx.count(1, ("as", w, pn))
            if ra != rb and w not in need_as:
                new_words.append(w)
                ctx.violation("input", dict(variation="optional AS", sql=a % w, variant=b % w, with_as=short(ra, 200), without_as=short(rb, 200),
                                            requires="the same outcome with and without AS (the word is not among the listed reserved words)"))
                break
    ctx.obligation("optional AS: every keyword-like word of the grammar (%d) used as an alias parses alike with and without AS, except the listed reserved words (%d)" % (len(c07.grammar_words()), len(need_as)), not new_words, str(new_words[:5]))
    for k, f in known.items():
        if f.get("words"):
            ctx.known(k, "%s (%d words, e.g. %s)" % (f["what"], len(f["words"]), ", ".join(f["words"][:4])))
    ctx.log("tables and exclusion set done")
    # ---- the oracle (one worker per statement; every random choice derives from the statement's own seed)
    stmts = pool(ctx, rnd, ctx.n(90, 1500))
    corpus = [c["sql"] for c in impl.corpus() if c["parser"] == "parse" and len(c["sql"]) < 300]
    rnd.shuffle(corpus)
    stmts += corpus[:ctx.n(40, 600)]
    failures = {}            # site-set -> example
    unexplained = []
    nvar = 0
    model_cases = []
    twin_bad = []
    ctx.traces = 0
    import multiprocessing as mp
    jobs = [(si, s, ctx.seed * 1000003 + si, ctx.tier, sorted(listed), ctx.n(40, 400)) for si, s in enumerate(stmts)]
    jobs.sort(key=lambda j: -len(j[1]))          # long statements first: better balance
    _W.update(reg=reg, T=T, P=P, kw=kw)          # forked workers inherit the tables
    with mp.get_context("fork").Pool(min(NCPU, 16)) as pl:
        for res in pl.imap_unordered(work, jobs, chunksize=1):
            nvar += res["nvar"]
            for v in res["distinct"]:
                ctx.count(1, v)
            ctx.evaluations += res["nvar"] - len(res["distinct"])
            unexplained += res["unexplained"]
            for k, v in res["failures"].items():
                failures.setdefault(k, v)
            twin_bad += res["twin_bad"]
            ctx.traces += res["traces"]
            if len(model_cases) < ctx.n(40, 400):
                model_cases += res["model_cases"]
    ctx.log("oracle done: %d variants" % nvar)
    ctx.obligation("correspondence: Python twin of Model/Peg.v = the traced engine (every node evaluation and the verdict) on %d statements and comment variants" % getattr(ctx, "traces", 0), not twin_bad, str(twin_bad[:2]))
    for t in twin_bad[:3]:
        ctx.violation("input", dict(sql=t["sql"], broken="correspondence engine model vs mo_parsing", diffs=t["diffs"]), no_input=True)
    bad, log = l0.run_checks(ctx, "c09_run", HEADER, [c for _, c in model_cases], shard=12)
    if bad is None:
        ctx.obligation("Coq model evaluated", False, log[-1500:])
        ctx.violation("obligation", dict(what="the Coq engine model could not be evaluated", log=log[-1500:]), no_input=True)
        bad = []
    ctx.obligation("correspondence: Model/Peg.v evaluated by Coq (vm_compute, oracle tables from the real terminals) = the Python twin: verdict and set of oracle queries, %d statements" % len(model_cases), not bad)
    for i in bad[:3]:
        ctx.violation("input", dict(sql=model_cases[i][0], broken="correspondence Coq model vs Python twin"), no_input=True)
    for u in unexplained[:10]:
        ctx.violation("input", u)
    # listed findings met by the oracle (informational: the KNOWN-FINDING lines come from the site list)
    ctx.sample(dict(variants=nvar, statements=len(stmts), failing_site_sets=len(failures), example=list(failures.values())[:2]))
    if new_sites:
        # a new non-comment-aware site: look for an input that shows it
        shown = [u for u in unexplained if any(s in new_sites for s in u.get("non_commuting_sites", []))]
        if not shown:
            ctx.violation("obligation", dict(what="sequence / repetition nodes that do not skip comments and are not listed", sites=new_sites[:10]), no_input=True)


def replay(ctx, rep):
    d = rep.get("detail", rep)
    if "variant" in d:
        a = parse_or_err(impl.M.parse, d["sql"])
        b = parse_or_err(impl.M.parse, d["variant"])
        print("base   :", repr(d["sql"]), "->", short(a, 400))
        print("variant:", repr(d["variant"]), "->", short(b, 400))
        if a != b:
            print("VIOLATION property=C09 replay=%s" % ctx.replay)
            return 1
        return 0
    print(json.dumps(d)[:2000])
    print("VIOLATION property=C09 replay=%s no-failing-input-found" % ctx.replay)
    return 1
