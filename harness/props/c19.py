# C19 — DDL and DML trees keep every column, option, assignment and row in place.
import json
from common import *
import impl, l0

THMS = ["C19_insert_pairing", "C19_row_recoverable", "C19_rows_in_order", "C19_truncation_refuted", "C19_bare_column_name_refuted"]
HEADER = ("From Coq Require Import List ZArith String Bool.\nFrom MoSql Require Import Base.Json Model.Ddl.\nImport ListNotations.\nOpen Scope string_scope. Open Scope list_scope.\n")

TYPES = [("int", {"int": {}}), ("integer", {"integer": {}}), ("bigint", {"bigint": {}}), ("smallint", {"smallint": {}}), ("tinyint", {"tinyint": {}}), ("mediumint", {"mediumint": {}}),
         ("float", {"float": {}}), ("double", {"double": {}}), ("real", {"real": {}}), ("decimal(10,2)", {"decimal": [10, 2]}), ("numeric(8, 3)", {"numeric": [8, 3]}), ("varchar(10)", {"varchar": 10}),
         ("char(3)", {"char": 3}), ("nvarchar(20)", {"nvarchar": 20}), ("text", {"text": {}}), ("date", {"date": {}}), ("timestamp", {"timestamp": {}}), ("datetime", {"datetime": {}}), ("time", {"time": {}}),
         ("boolean", {"boolean": {}}), ("bool", {"bool": {}}), ("blob", {"blob": {}}), ("json", {"json": {}}), ("bytes", {"bytes": {}}), ("string", {"string": {}}), ("int64", {"int64": {}}),
         ("number(5)", {"number": 5}), ("varchar2(9)", {"varchar2": 9}), ("uuid", {"uuid": {}}), ("float(5)", {"float": 5}), ("int(11)", {"int": 11}), ("decimal", {"decimal": {}}),
         ("double precision", {"double_precision": {}}), ("VARCHAR(7)", {"varchar": 7}), ("Timestamp", {"timestamp": {}})]
OPTS = [("not null", "nullable", False), ("null", "nullable", True), ("unique", "unique", True), ("primary key", "primary_key", True), ("default 5", "default", 5), ("default null", "default", {"null": {}}),
        ("default 'x'", "default", {"literal": "x"}), ("check (%(c)s > 1)", "check", None), ("references u(x)", "references", {"table": "u", "columns": "x"}), ("auto_increment", "auto_increment", True),
        ("comment 'c'", "comment", {"literal": "c"}), ("collate utf8", "collate", "utf8"), ("default current_timestamp", "default", "current_timestamp"), ("not enforced", "enforced", False),
        ("default ''", "default", {"literal": ""}), ("default 0", "default", 0), ("default false", "default", False)]


class D:
    def __init__(self, rnd):
        self.r = rnd
        self.n = 0

    def name(self, p="c", quoted=True):
        self.n += 1
        base = "%s%d" % (p, self.n)
        x = self.r.random()
        if quoted and x < 0.15:
            return '"%s x"' % base, base + " x"
        if quoted and x < 0.25:
            return "`%s`" % base, base
        return base, base

    def table(self):
        t, tn = self.name("t")
        if self.r.random() < 0.3:
            s, sn = self.name("s", quoted=False)
            return s + "." + t, sn + "." + tn
        return t, tn

    def create(self):
        tsql, tname = self.table()
        cols_sql, cols = [], []
        for _ in range(self.r.randint(1, 8)):
            csql, cname = self.name()
            ty, tyt = self.r.choice(TYPES)
            col = {"name": cname, "type": tyt}
            s = csql + " " + ty
            used = set()
            charset_later = None
            if ty.lower().startswith(("varchar(", "char(", "nvarchar(", "text")) and self.r.random() < 0.35:
                cs = self.r.choice(["utf8", "latin1", "utf8mb4"])
                col["character_set"] = cs
                if self.r.random() < 0.6:
                    s += " character set " + cs
                else:
                    charset_later = cs
            prev = None
            for o, key, val in self.r.sample(OPTS, self.r.choice([0, 0, 1, 1, 2, 3])):
                if key in used or (key == "collate" and prev == "default"):     # DEFAULT x COLLATE y is the operator COLLATE applied to x
                    continue
                prev = key
                used.add(key)
                if key == "check":
                    s += " " + o % dict(c=csql)
                    col["check"] = {"gt": [cname, 1]}
                else:
                    s += " " + o
                    col[key] = val
            if charset_later:
                s += " character set " + charset_later
            cols_sql.append(s)
            cols.append(col)
        cons_sql, cons = [], []
        for _ in range(self.r.choice([0, 0, 1, 2, 3])):
            k = self.r.random()
            a = cols[self.r.randrange(len(cols))]["name"]
            aq = '"%s"' % a if " " in a else a
            if k < 0.3:
                cons_sql.append("primary key (%s)" % aq)
                cons.append({"primary_key": {"columns": a}})
            elif k < 0.55:
                b = cols[self.r.randrange(len(cols))]["name"]
                bq = '"%s"' % b if " " in b else b
                nm, nmn = self.name("k", quoted=False)
                cons_sql.append("constraint %s unique (%s, %s)" % (nm, aq, bq))
                cons.append({"name": nmn, "index": {"unique": True, "columns": [a, b]}})
            elif k < 0.8:
                fk = {"columns": a, "references": {"table": "u", "columns": "x"}}
                txt = "foreign key (%s) references u(x)" % aq
                # referential actions, in either order
                acts = self.r.sample([("on delete", "on_delete"), ("on update", "on_update")], self.r.choice([0, 1, 2, 2]))
                for words, key in acts:
                    val = self.r.choice(["cascade", "restrict", "set null", "set default"]) if key == "on_delete" else "cascade"
                    txt += " %s %s" % (words, val)
                    fk[key] = val.replace(" ", "_")
                cons_sql.append(txt)
                cons.append({"foreign_key": fk})
            else:
                nm, nmn = self.name("k", quoted=False)
                cons_sql.append("constraint %s check (%s > 2)" % (nm, aq))
                cons.append({"name": nmn, "check": {"gt": [a, 2]}})
        tree = {"name": tname, "columns": cols[0] if len(cols) == 1 else cols}
        if cons:
            tree["constraint"] = cons[0] if len(cons) == 1 else cons
        return "create table %s (%s)" % (tsql, ", ".join(cols_sql + cons_sql)), {"create table": tree}

    def value(self, literal_only=False):
        x = self.r.random()
        if literal_only:
            x = x * 0.55
        if x < 0.35:
            n = self.r.randint(1, 99)
            return str(n), n, True
        if x < 0.55:
            s = self.r.choice(["a", "x y", "it''s"])
            return "'%s'" % s, {"literal": s.replace("''", "'")}, True
        if x < 0.65:
            return "null", {"null": {}}, False
        if x < 0.72:
            return "0", 0, False
        if literal_only:
            return "7", 7, True
        if x < 0.86:
            c, cn = self.name(quoted=False)
            return c, cn, False
        c, cn = self.name(quoted=False)
        return "%s + 1" % c, {"add": [cn, 1]}, False

    def insert(self):
        tsql, tname = self.table()
        ncol = self.r.randint(1, 5)
        names = [self.name(quoted=self.r.random() < 0.5) for _ in range(ncol)]
        nrows = self.r.randint(1, 4)
        all_lit = self.r.random() < 0.5
        rows = [[self.value(literal_only=all_lit) for _ in range(ncol)] for _ in range(nrows)]
        verb = self.r.choice(["insert", "insert", "replace"])
        nocols = self.r.random() < 0.2
        sql = "%s into %s %svalues %s" % (verb, tsql, "" if nocols else "(%s) " % ", ".join(n[0] for n in names), ", ".join("(" + ", ".join(v[0] for v in r) + ")" for r in rows))
        cols = [n[1] for n in names]
        truthy = all(v[2] for r in rows for v in r)
        if nocols:
            lit = lambda t: t["literal"] if isinstance(t, dict) and "literal" in t else t
            if truthy and ncol > 1 and nrows > 1:
                return sql, {"values": [[lit(v[1]) for v in r] for r in rows], verb: tname}, None
            sel = [{"select": ([{"value": v[1]} for v in r] if ncol > 1 else {"value": r[0][1]})} for r in rows]
            return sql, {"query": sel[0] if nrows == 1 else {"union_all": sel}, verb: tname}, None
        # the property: the i-th column is paired with the i-th value of every row, rows in order.  Two written forms of the same information:
        if truthy and ncol > 1 and nrows > 1:
            lit = lambda t: t["literal"] if isinstance(t, dict) and "literal" in t else t
            tree = {"values": [{c: lit(v[1]) for c, v in zip(cols, r)} for r in rows], verb: tname}
        else:
            sel = [{"select": ([{"value": v[1]} for v in r] if ncol > 1 else {"value": r[0][1]})} for r in rows]
            tree = {"columns": cols if ncol > 1 else cols[0], "query": sel[0] if nrows == 1 else {"union_all": sel}, verb: tname}
        return sql, tree, (cols, rows)

    def update(self):
        tsql, tname = self.table()
        sets_sql, sets = [], {}
        for _ in range(self.r.randint(1, 5)):
            c, cn = self.name(quoted=False)
            v = self.value()
            sets_sql.append("%s = %s" % (c, v[0]))
            sets[cn] = v[1]
        sql = "update %s set %s" % (tsql, ", ".join(sets_sql))
        tree = {"set": sets, "update": tname}
        if self.r.random() < 0.3:
            f, fn = self.name("u", quoted=False)
            sql += " from " + f
            tree["from"] = fn
        if self.r.random() < 0.7:
            w, wn = self.name(quoted=False)
            sql += " where %s = 3" % w
            tree["where"] = {"eq": [wn, 3]}
        return sql, tree

    def other(self):
        k = self.r.random()
        tsql, tname = self.table()
        if k < 0.25:
            w, wn = self.name(quoted=False)
            return "delete from %s where %s = 1" % (tsql, w), {"where": {"eq": [wn, 1]}, "delete": tname}
        if k < 0.45:
            ie = self.r.random() < 0.5
            return "drop table %s%s" % ("if exists " if ie else "", tsql), {"drop": dict(**({"if_exists": True} if ie else {}), table=tname)}
        if k < 0.7:
            a, an = self.name(quoted=False)
            return "create view %s as select %s from u" % (tsql, a), {"create view": {"name": tname, "query": {"select": {"value": an}, "from": "u"}}}
        i, iname = self.name("i", quoted=False)
        cs = [self.name(quoted=False) for _ in range(self.r.randint(1, 3))]
        return "create index %s on %s (%s)" % (i, tsql, ", ".join(c[0] for c in cs)), {"create index": {"name": iname, "table": tname, "columns": cs[0][1] if len(cs) == 1 else [c[1] for c in cs]}}


def run(ctx):
    ctx.rule = ("statements from the DDL/DML generator: CREATE TABLE with 1-8 columns x %d types (with and without parameters) x subsets of %d column options x 0-3 table constraints; INSERT with 1-5 columns x 1-4 rows of "
                "literal / NULL / 0 / column / expression values; UPDATE with 1-5 assignments, FROM, WHERE; DELETE, DROP, CREATE VIEW / INDEX; schema-qualified and quoted names; the required tree is built by the generator; "
                "distinct non-trivial = distinct statements" % (len(TYPES), len(OPTS)))
    ok, out = ctx.prove("Props.C19", THMS)
    from props import casex
    casex.insert_stage(ctx)
    known = ctx.finding_keys()
    rnd = ctx.rng("c19")
    d = D(rnd)
    checks, meta = [], []
    nbad = 0
    for i in range(ctx.n(1500, 20000)):
        d.n = 0
        k = i % 10
        extra = None
        if k < 4:
            sql, want = d.create()
        elif k < 7:
            sql, want, extra = d.insert()
        elif k < 9:
            sql, want = d.update()
        else:
            sql, want = d.other()
        st, got = impl.outcome(impl.M.parse, sql)
        ctx.count(1, sql)
        if st != "ok" or canon(got) != canon(want):
            nbad += 1
            ctx.violation("input", dict(sql=sql, returned=short(got, 1000) if st == "ok" else [st, str(got)], requires=short(want, 1000)))
            if nbad > 10:
                break
            continue
        if extra and "values" in got:
            cols, rows = extra
            lit = lambda t: t["literal"] if isinstance(t, dict) and "literal" in t else t
            # the model's zip on the written columns and rows = the implementation's values
            checks.append("jv_eqb (insert_values [%s] [%s]) %s" % ("; ".join(cstr(c) for c in cols), "; ".join("[" + "; ".join(cjson(lit(v[1])) for v in r) + "]" for r in rows), cjson(got["values"])))
            meta.append(sql)
    # listed findings (length mismatch between column list and rows), replayed so that a change of behaviour is noticed
    for sql, key in (("insert into t (a) values (1, 2), (3, 4)", "C19:row-longer-than-column-list"), ("insert into t (a, b, c) values (1, 2), (3, 4)", "C19:row-shorter-than-column-list")):
        st, got = impl.outcome(impl.M.parse, sql)
        ctx.count(1, sql)
        if st == "ok" and key in known:
            ctx.known(key, "%s e.g. %s -> %s" % (known[key]["what"], sql, short(got, 200)))
    bad, log = l0.run_checks(ctx, "c19", HEADER, checks, shard=400)
    if bad is None:
        ctx.obligation("correspondence evaluated", False, log[-2000:])
        ctx.violation("obligation", dict(what="correspondence check could not be evaluated by coqc", log=log[-2000:]), no_input=True)
        bad = []
    ctx.traces = len(checks)
    ctx.obligation("correspondence: Model/Ddl.v insert_values = the implementation's VALUES pairing on %d INSERT statements" % len(checks), not bad)
    for i in bad[:5]:
        ctx.violation("input", dict(sql=meta[i], broken="correspondence Model/Ddl.v (zip of columns and row) vs to_insert_call"), no_input=True)
    ctx.sample(dict(sql=sql))


def replay(ctx, rep):
    print(impl.outcome(impl.M.parse, rep["sql"]))
    print("requires:", rep.get("requires"))
    print("VIOLATION property=C19 replay=%s" % ctx.replay)
    return 1
