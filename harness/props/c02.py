# C02 — every query clause lands under its own key with the written grouping.
import json
from common import *
import impl, l0

THMS = ["C02_set_operations_group_left", "C02_parenthesised_operand_stays_grouped", "C02_tail_wraps_whole_chain", "C02_from_sources_in_order",
        "C02_clause_keys_of_dictionary", "C02_clause_items_of_dictionary", "C02_clause_keys_of_named_result", "C02_clause_items_of_named_result"]
HEADER = ("From Coq Require Import List ZArith String Bool.\nFrom MoSql Require Import Base.Json Model.Clause.\nImport ListNotations.\nOpen Scope string_scope. Open Scope list_scope.\n")
JOINS = ["join", "inner join", "left join", "right join", "full join", "cross join", "left outer join", "right outer join", "full outer join"]
SETOPS = [("union", "union"), ("union all", "union_all"), ("intersect", "intersect"), ("except", "except"), ("minus", "minus")]


def wrap(xs):
    return xs[0] if len(xs) == 1 else xs


class Q:
    """query generator that also builds the tree the property requires (written from the property text, independent of the implementation)"""

    def __init__(self, rnd):
        self.r = rnd
        self.n = 0

    def ident(self, p="c"):
        self.n += 1
        return "%s%d" % (p, self.n)

    def expr(self, depth=1):
        r = self.r.random()
        if r < 0.45:
            a = self.ident()
            return a, a
        if r < 0.6:
            a, b = self.ident(), self.ident()
            return "%s + %s" % (a, b), {"add": [a, b]}
        if r < 0.72:
            a = self.ident()
            n = self.r.randint(1, 9)
            return "%s = %d" % (a, n), {"eq": [a, n]}
        if r < 0.8:
            a = self.ident()
            return "f(%s)" % a, {"f": a}
        if r < 0.86 and depth > 0:
            s, t = self.query(depth - 1, setop=False, tail=False, ctes=False)
            a = self.ident()
            return "%s in (%s)" % (a, s), {"in": [a, t]}
        if r < 0.92 and depth > 0:
            s, t = self.query(depth - 1, setop=False, tail=False, ctes=False)
            return "exists (%s)" % s, {"exists": t}
        if depth > 0:
            s, t = self.query(depth - 1, setop=False, tail=False, ctes=False)
            return "(%s)" % s, t
        a = self.ident()
        return a, a

    def source(self, depth):
        if depth > 0 and self.r.random() < 0.2:
            sql, tree = self.query(depth - 1, setop=self.r.random() < 0.3, ctes=False)
            al = self.ident("q")
            return "(%s) as %s" % (sql, al), {"value": tree, "name": al}
        t = self.ident("t")
        if self.r.random() < 0.4:
            al = self.ident("a")
            return t + self.r.choice([" as ", " "]) + al, {"value": t, "name": al}
        return t, t

    def select(self, depth, allow_star=True):
        n = self.r.randint(1, 4)
        kind = self.r.choice(["select", "select", "select distinct", "select top"])
        items_sql, items = [], []
        for _ in range(n):
            # star forms are written differently under DISTINCT, and a bare star needs a FROM clause: not generated there
            r = self.r.random() if (kind != "select distinct" and allow_star) else 0.5 + self.r.random() / 2
            if r < 0.08:
                items_sql.append("*")
                items.append({"all_columns": {}})
                continue
            if r < 0.13:
                t = self.ident("t")
                items_sql.append(t + ".*")
                items.append({"all_columns": t})
                continue
            es, et = self.expr(depth)
            if self.r.random() < 0.4:
                al = self.ident("n")
                items_sql.append(es + self.r.choice([" as ", " "]) + al)
                items.append({"value": et, "name": al})
            else:
                items_sql.append(es)
                items.append({"value": et})
        tree = {}
        if kind == "select top":
            k = self.r.randint(1, 50)
            sql = "select top %d %s" % (k, ", ".join(items_sql))
            tree["top"] = k
            tree["select"] = wrap(items)
        elif kind == "select distinct":
            sql = "select distinct " + ", ".join(items_sql)
            tree["select_distinct"] = wrap(items)
        else:
            sql = "select " + ", ".join(items_sql)
            tree["select"] = wrap(items)
        return sql, tree

    def simple(self, depth):
        nsrc = self.r.choice([0, 1, 1, 2, 2, 3, 3, 4, 4, 5, 6])
        bare_run = self.r.random() < 0.2        # a run of joins that carry no ON / USING (CROSS JOIN, NATURAL JOIN)
        sql, tree = self.select(depth, allow_star=nsrc > 0)
        if nsrc:
            srcs_sql, srcs = [], []
            s, t = self.source(depth)
            srcs_sql.append(s)
            srcs.append(t)
            seen_join = False
            for _ in range(nsrc - 1):
                if self.r.random() < 0.35:
                    s, t = self.source(depth)
                    srcs_sql.append(", " + s)
                    srcs.append({"cross join": t} if seen_join else t)
                else:
                    jk = self.r.choice(["cross join", "natural join"]) if bare_run else self.r.choice(JOINS)
                    s, t = self.source(depth)
                    seen_join = True
                    j = {jk: t}
                    js = " %s %s" % (jk, s)
                    if jk not in ("cross join", "natural join"):
                        if self.r.random() < 0.8:
                            es, et = self.expr(0)
                            js += " on " + es
                            j["on"] = et
                        else:
                            c = self.ident()
                            js += " using (%s)" % c
                            j["using"] = c
                    srcs_sql.append(js)
                    srcs.append(j)
            sql += " from " + "".join(srcs_sql)
            tree["from"] = wrap(srcs)
            if self.r.random() < 0.5:
                es, et = self.expr(depth)
                sql += " where " + es
                tree["where"] = et
            if self.r.random() < 0.3:
                gs, gt = [], []
                for _ in range(self.r.randint(1, 2)):
                    es, et = self.expr(0)
                    gs.append(es)
                    gt.append({"value": et})
                sql += " group by " + ", ".join(gs)
                tree["groupby"] = wrap(gt)
                if self.r.random() < 0.5:
                    es, et = self.expr(0)
                    sql += " having " + es
                    tree["having"] = et
        return sql, tree

    def tail(self):
        sql, t = "", {}
        if self.r.random() < 0.4:
            os_, ot = [], []
            for _ in range(self.r.randint(1, 2)):
                es, et = self.expr(0)
                d = self.r.choice(["", " asc", " desc"])
                os_.append(es + d)
                o = {"value": et}
                if d:
                    o["sort"] = d.strip()
                ot.append(o)
            sql += " order by " + ", ".join(os_)
            t["orderby"] = wrap(ot)
        if self.r.random() < 0.3:
            n = self.r.randint(1, 99)
            sql += " limit %d" % n
            t["limit"] = n
            if self.r.random() < 0.5:
                m = self.r.randint(1, 99)
                sql += " offset %d" % m
                t["offset"] = m
        return sql, t

    def query(self, depth, setop=True, tail=True, ctes=True):
        if setop and self.r.random() < 0.4:
            n = self.r.randint(2, 4)
            parts = []
            for i in range(n):
                if self.r.random() < 0.3:
                    s, t = self.query(depth, setop=True, tail=False, ctes=False)
                    parts.append(("(%s)" % s, t))
                else:
                    s, t = self.simple(depth)
                    parts.append((s, t))
            ops = [self.r.choice(SETOPS) for _ in range(n - 1)]
            sql = parts[0][0]
            acc = parts[0][1]
            last = None
            chain = []
            for (osql, oname), (s, t) in zip(ops, parts[1:]):
                sql += " " + osql + " " + s
                chain.append((oname, t))
                if oname == last and "union" in oname:
                    acc = {oname: acc[oname] + [t]}
                else:
                    acc = {oname: [acc, t]}
                last = oname
            self.chains.append((parts[0][1], chain))
            ts, tt = self.tail() if tail else ("", {})
            if tt:
                acc = {"from": acc, **tt}
            return sql + ts, acc
        s, t = self.simple(depth)
        ts, tt = self.tail() if tail else ("", {})
        if tail and tt and not ctes_only(ctes) and self.r.random() < 0.08:
            # the whole query in parentheses followed by a tail: the tail attaches to the parenthesised query as a whole
            return "(%s)%s" % (s, ts), {"from": t, **tt}
        t = dict(t)
        t.update(tt)
        sql = s + ts
        if ctes and self.r.random() < 0.15:
            cs, ct = [], []
            for _ in range(self.r.randint(1, 3)):
                w = self.ident("w")
                qs, qt = self.simple(0)
                cs.append("%s as (%s)" % (w, qs))
                ct.append({"name": w, "value": qt})
            sql = "with " + ", ".join(cs) + " " + sql
            t["with"] = wrap(ct)
        return sql, t

    chains = []


def ctes_only(ctes):
    return False


def run(ctx):
    ctx.rule = ("queries from the clause grammar: 0-3 CTEs, 1-4 select items (aliases, star forms, DISTINCT, TOP), 0-4 table sources with 9 join kinds and ON / USING, each optional clause present or absent, "
                "set-operation chains of length 2-4 over 5 operators with parenthesised operands in every position, sub-queries in FROM / IN / EXISTS / scalar position to depth 2; the required tree is built by the generator "
                "from the property text; distinct non-trivial = distinct accepted queries")
    ok, out = ctx.prove("Props.C02", THMS)
    rnd = ctx.rng("c02")
    q = Q(rnd)
    checks, meta = [], []
    raw_pool = []
    nbad = 0
    for i in range(ctx.n(1500, 20000)):
        q.n = 0
        Q.chains = []
        sql, want = q.query(2 if i % 3 == 0 else 1)
        if len(sql) > 450:
            continue
        st, got = impl.outcome(impl.M.parse, sql)
        ctx.count(1, sql)
        if st == "ok" and i % ctx.n(4, 8) == 0:
            raw_pool.append(sql)
        if st != "ok" or canon(got) != canon(want):
            nbad += 1
            ctx.violation("input", dict(sql=sql, returned=short(got, 1000) if st == "ok" else [st, str(got)], requires=short(want, 1000)))
            if nbad > 10:
                break
            continue
        # the fold model on the chains of this query (operands as the implementation parsed them: they are sub-trees of `got` equal to `want`)
        for s0, chain in Q.chains[:2]:
            exp = s0
            last = None
            for oname, t in chain:
                if oname == last and "union" in oname:
                    exp = {oname: exp[oname] + [t]}
                else:
                    exp = {oname: [exp, t]}
                last = oname
            checks.append("jv_eqb (to_union %s [%s]) %s" % (cjson(s0), "; ".join("(%s, %s)" % (cstr(o), cjson(t)) for o, t in chain), cjson(exp)))
            meta.append(sql)
    # chains with a parenthesised set operation as LEFT operand, same operator outside (the grouping must survive)
    for op_sql, op in SETOPS:
        for op2_sql, op2 in SETOPS:
            sql = "(select a from t %s select b from u) %s select c from v" % (op_sql, op2_sql)
            inner = {op: [{"select": {"value": "a"}, "from": "t"}, {"select": {"value": "b"}, "from": "u"}]}
            want = {op2: [inner, {"select": {"value": "c"}, "from": "v"}]}
            st, got = impl.outcome(impl.M.parse, sql)
            ctx.count(1, sql)
            if st != "ok" or canon(got) != canon(want):
                ctx.violation("input", dict(sql=sql, returned=short(got, 800) if st == "ok" else [st, str(got)], requires=short(want, 800)))
            checks.append("jv_eqb (to_union %s [(%s, %s)]) %s" % (cjson(inner), cstr(op2), cjson({"select": {"value": "c"}, "from": "v"}), cjson(got if st == "ok" else want)))
            meta.append(sql)
    # join chains: the model's nest-and-flatten of FROM (Model/Clause.v from_list) against the implementation, runs of ON-less joins of every length up to 7
    nset = len(checks)
    for k in range(1, 8):
        for variant in range(3):
            names = ["t%d" % i for i in range(k + 1)]
            kinds = [rnd.choice(["cross join", "natural join"]) for _ in range(k)]
            on_at = set() if variant == 0 else {rnd.randrange(k)} if variant == 1 else {i for i in range(k) if rnd.random() < 0.5}
            sql, joins = "select * from " + names[0], []
            for i in range(k):
                if i in on_at:
                    sql += " left join %s on c%d = %d" % (names[i + 1], i, i)
                    joins.append(({"left join": names[i + 1], "on": {"eq": ["c%d" % i, i]}}, True))
                else:
                    sql += " %s %s" % (kinds[i], names[i + 1])
                    joins.append(({kinds[i]: names[i + 1]}, False))
            runs, cur = [], []
            for j, has_on in joins:          # a join with ON / USING ends the run it stands in
                cur.append(j)
                if has_on:
                    runs.append(cur)
                    cur = []
            if cur:
                runs.append(cur)
            st, got = impl.outcome(impl.M.parse, sql)
            ctx.count(1, sql)
            want = [names[0]] + [j for j, _ in joins]
            if st != "ok" or canon(got.get("from")) != canon(want):
                ctx.violation("input", dict(sql=sql, returned=short(got, 800) if st == "ok" else [st, str(got)], requires="from = " + short(want, 800)))
                continue
            checks.append("jv_eqb (JList (from_list %s [%s])) %s" % (cjson(names[0]), "; ".join("(%s, [%s])" % (cjson(r[0]), "; ".join(cjson(x) for x in r[1:])) for r in runs), cjson(got["from"])))
            meta.append(sql)
    bad, log = l0.run_checks(ctx, "c02", HEADER, checks, shard=300)
    if bad is None:
        ctx.obligation("correspondence evaluated", False, log[-2000:])
        ctx.violation("obligation", dict(what="correspondence check could not be evaluated by coqc", log=log[-2000:]), no_input=True)
        bad = []
    ctx.traces = len(checks)
    ctx.obligation("correspondence: the fold model of to_union_call and the join-chain model of to_join_call (Model/Clause.v) = the implementation on %d set-operation chains and %d FROM clauses" % (nset, len(checks) - nset), not bad)
    for i in bad[:5]:
        ctx.violation("input", dict(sql=meta[i], broken="correspondence Model/Clause.v (to_union) vs the implementation's set-operation folding"), no_input=True)
    ctx.sample(dict(sql=sql))
    # ---- the last stage: the raw result that reaches utils.scrub for a sample of the generated queries, the model's scrub on it (the C02_clause_* theorems are about that model)
    import l2
    l2.U = impl.build_all()
    cases, cmeta = [], []
    for sql in raw_pool:
        st, val, cap, x = l2.run_case("common_parser", sql, "simple", "default", None)
        if st != "ok" or len(cap) != 1:
            continue
        try:
            term = l2.dump(cap[0][0], {})
        except l2.Outside:
            continue
        if len(term) > 60000:
            continue
        cases.append(l2.coq_case("simple", None, x, term, cap[0][1]))
        cmeta.append(sql)
    res, log = l2.run_model(ctx, "c02s", cases)
    if res is None:
        ctx.obligation("scrub correspondence evaluated", False, log[-1500:])
        ctx.violation("obligation", dict(what="the scrub correspondence could not be evaluated by coqc", log=log[-1500:]), no_input=True)
    else:
        ctx.traces += len(cases)
        ctx.obligation("correspondence: Model.Scrub.parse_result = utils.scrub on the raw results of %d generated queries (clause dictionaries and named results)" % len(cases), not res["mismatch"])
        for i in res["mismatch"][:5]:
            ctx.violation("input", dict(sql=cmeta[i], broken="correspondence Model/Scrub.v vs utils.scrub on a query (the C02_clause_* theorems are proved about the model)"), no_input=True)


def replay(ctx, rep):
    print(impl.outcome(impl.M.parse, rep["sql"]))
    print("requires:", rep.get("requires"))
    print("VIOLATION property=C02 replay=%s" % ctx.replay)
    return 1
