# C07 — identifiers survive every quoting style, and format quotes whatever needs it.
import json, re
from common import *
import impl, l0

THMS = ["C07_escape_evaluation_refuted", "C07_path_segments_distinguishable", "C07_double_quoted", "C07_backticked", "C07_bracketed", "C07_quoted_segment_one_token"]
HEADER = ("From Coq Require Import List NArith Bool.\nFrom MoSql Require Import Model.Lit Model.Ident.\nImport ListNotations.\nOpen Scope N_scope.\n"
          "Definition seqb (x y : list N) : bool := if list_eq_dec N.eq_dec x y then true else false.\n"
          "Fixpoint lseqb (x y : list (list N)) : bool := match x, y with [], [] => true | a :: x', b :: y' => seqb a b && lseqb x' y' | _, _ => false end.\n"
          "Definition res_eqb (a b : res (list N)) : bool := match a, b with Ok x, Ok y => seqb x y | Err, Err => true | _, _ => false end.\n")

POS = {
    "column": (lambda w: {"select": {"value": w}, "from": "t"}),
    "table": (lambda w: {"select": {"value": "a"}, "from": w}),
    "col_alias": (lambda w: {"select": {"value": "a", "name": w}, "from": "t"}),
    "tab_alias": (lambda w: {"select": {"value": "a"}, "from": {"value": "t", "name": w}}),
    "qualifier": (lambda w: {"select": {"value": w + ".a"}, "from": "t"}),
    "func_arg": (lambda w: {"select": {"value": {"f": w}}, "from": "t"}),
    "order_by": (lambda w: {"select": {"value": "a"}, "from": "t", "orderby": {"value": w}}),
    "column+alias": (lambda w: {"select": {"value": w, "name": "x"}, "from": "t"}),
    "column,first": (lambda w: {"select": [{"value": w}, {"value": "b"}], "from": "t"}),
    "column in expr": (lambda w: {"select": {"value": {"add": [w, 1]}}, "from": "t"}),
    "column rhs expr": (lambda w: {"select": {"value": {"add": [1, w]}}, "from": "t"}),
    "table+alias": (lambda w: {"select": {"value": "a"}, "from": {"value": w, "name": "x"}}),
    "table,join": (lambda w: {"select": {"value": "a"}, "from": [w, {"join": "u", "on": {"eq": ["a", "b"]}}]}),
    "join table": (lambda w: {"select": {"value": "a"}, "from": ["t", {"join": w, "on": {"eq": ["a", "b"]}}]}),
    "where column": (lambda w: {"select": {"value": "a"}, "from": "t", "where": {"eq": [w, 1]}}),
    "order_by desc": (lambda w: {"select": {"value": "a"}, "from": "t", "orderby": {"value": w, "sort": "desc"}}),
    "groupby": (lambda w: {"select": {"value": "a"}, "from": "t", "groupby": {"value": w}}),
    "col no from": (lambda w: {"select": {"value": w}}),
}


def grammar_words():
    impl.build_all()
    P = impl.M.lookup_parsers["common_parser"][None]
    seen, words = set(), set()
    stack = [P.element]
    while stack:
        x = stack.pop()
        if id(x) in seen:
            continue
        seen.add(id(x))
        if type(x).__name__ in ("Keyword", "CaselessKeyword", "Literal", "CaselessLiteral", "SingleCharLiteral"):
            m = x.parser_config.match
            if re.match(r"^[A-Za-z_][A-Za-z0-9_]*$", m):
                words.add(m.lower())
        for attr in ("expr", "exprs"):
            try:
                v = getattr(x, attr)
            except Exception:
                continue
            if v is None or isinstance(v, str):
                continue
            stack.extend(list(v) if isinstance(v, (list, tuple)) else [v])
    return sorted(words)


def klass(name):
    from mo_sql_parsing.formatting import VALID
    if "\\" in name:
        return "C07:backslash"
    if "\r" in name:
        return "C07:carriage-return"
    if "\x00" in name:
        return "C07:nul"
    if "\b" in name:
        return "C07:backspace"
    for seg in name.split("."):
        if VALID.match(seg) and not re.fullmatch(r"[@_$0-9A-Za-zÀ-ÖØ-öø-ƿ]+", seg):
            return "C07:valid-wider-than-ident-char"
    return None


def roundtrip(tree, ansi):
    st, s = impl.outcome(impl.M.format, tree, ansi_quotes=ansi)
    if st != "ok":
        return False, "format raised %s" % (s,), None
    st, t2 = impl.outcome(impl.M.parse, s)
    if st != "ok":
        return False, s, "re-parse rejected (%s)" % (t2,)
    if canon(t2) != canon(tree):
        return False, s, t2
    if not ansi:
        # ansi_quotes=False asks for the quoting that the MySQL entry point reads (back-ticks; there "..." is a string literal): the text must
        # carry the names for that reader too -- in particular when the same name was formatted with the other quote character earlier
        st, t3 = impl.outcome(impl.ENTRY["mysql_parser"], s)
        if st != "ok":
            return False, s, "parse_mysql rejected (%s)" % (t3,)
        if canon(t3) != canon(tree):
            return False, s, dict(parse_mysql=t3)
    return True, s, t2


def run(ctx):
    ctx.rule = ("unit level: literal_field / split_field / double_column / backtick_column / square_column on all strings over small alphabets to length 3-5 against the Coq model; "
                "hazard table: every word-like terminal of the live grammar (not only RESERVED) x %d position/neighbour contexts x ansi_quotes in {True, False}, format then parse; "
                "system level: identifier texts over letters, digits, space, dot, the quote characters, dash, @, $, non-ASCII (exhaustive to length 2-3, random longer) written in every quoting style "
                "as column / table / alias / qualifier in the dialect that supports the style, and placed in trees for format->parse; distinct non-trivial = distinct (name, context)" % len(POS))
    ok, out = ctx.prove("Props.C07", THMS)
    from mo_sql_parsing import utils as U
    from mo_dots import literal_field, split_field
    known = ctx.finding_keys()
    rnd = ctx.rng("c07")
    # ---------------- unit-level correspondence
    checks, meta = [], []
    for s in l0.strings([".", "a", "\b", "é", " ", "\n"], ctx.n(4, 6)):
        checks.append("seqb (lit_field %s) %s" % (l0.cs(s), l0.cs(literal_field(s)))); meta.append(("literal_field", s))
        if s and s != "." and not s.startswith(".."):
            try:
                sp = split_field(s)
            except Exception:
                sp = None
            if sp is not None:
                checks.append("lseqb (split_field %s) [%s]" % (l0.cs(s), "; ".join(l0.cs(x) for x in sp))); meta.append(("split_field", s))
    for s in l0.strings(["'", '"', "`", "]", "[", "\\", ".", "a", "\n", "é"], ctx.n(3, 4)):
        for fn, tok in (("double_column", '"' + s.replace('"', '""') + '"'), ("backtick_column", "`" + s.replace("`", "``") + "`"), ("square_column", "[" + s.replace("]", "]]") + "]")):
            try:
                real = ("ok", getattr(U, fn)([tok]))
            except Exception:
                real = ("err",)
            checks.append("res_eqb (%s %s) %s" % (fn, l0.cs(tok), l0.cres(real))); meta.append((fn, s))
    # paths: the theorem's statement evaluated on the implementation
    segs_alpha = ["a", ".", " ", "b c", "x.y", "..", "é", "1", "a.", ".a"]
    for _ in range(ctx.n(300, 3000)):
        segs = [rnd.choice(segs_alpha) + rnd.choice(["", "", rnd.choice(segs_alpha)]) for _ in range(rnd.randint(1, 4))]
        joined = ".".join(literal_field(s) for s in segs)
        try:
            sp = split_field(joined)
        except Exception as e:
            sp = "EXC %r" % e
        ctx.count(1)
        if sp != segs:
            ctx.violation("input", dict(segments=segs, joined=joined, split=sp, requires="split_field(join(literal_field(s) for s in segments)) == segments"))
        checks.append("lseqb (split_field %s) [%s]" % (l0.cs(joined), "; ".join(l0.cs(x) for x in segs))); meta.append(("path", segs))
    bad, log = l0.run_checks(ctx, "c07", HEADER, checks)
    if bad is None:
        ctx.obligation("correspondence evaluated", False, log[-2000:])
        ctx.violation("obligation", dict(what="correspondence check could not be evaluated by coqc", log=log[-2000:]), no_input=True)
        bad = []
    ctx.traces = len(checks)
    ctx.obligation("correspondence: Model/Ident.v = mo_dots.literal_field / split_field and utils.double_column / backtick_column / square_column on %d cases" % len(checks), not bad)
    for i in bad[:6]:
        ctx.violation("input", dict(function=meta[i][0], argument=meta[i][1], broken="correspondence Model/Ident.v vs implementation (C07 theorems are proved about the model)"), no_input=True)
    # ---------------- hazard table: every keyword-like terminal of the grammar, bare, in every context
    words = grammar_words()
    ctx.extra["grammar_words"] = len(words)
    if not ctx.thorough:
        words = [w for i, w in enumerate(words) if i % 3 == ctx.seed % 3] + ["interval", "top", "select", "from", "order", "end"]
    hazards = {}
    for w0 in words:
        # keywords are matched caselessly by the grammar: every spelling of the word needs the same care
        for w in (w0, w0.capitalize(), w0.upper(), w0[:1] + w0[1:].upper()):
            for pn, mk in POS.items():
                for ansi in (True, False):
                    if w != w0 and (hash((w, pn)) + ctx.seed) % 3 and not ctx.thorough:
                        continue
                    okrt, s, back = roundtrip(mk(w), ansi)
                    ctx.count(1, ("word", w, pn, ansi))
                    if not okrt:
                        hazards.setdefault(w, []).append((pn, ansi, s, back))
    for w, hs in sorted(hazards.items()):
        key = "C07:bare-keyword:" + w.lower()
        if key in known:
            ctx.known(key, "%s e.g. %s" % (known[key]["what"], known[key]["witness"]))
            continue
        pn, ansi, s, back = hs[0]
        ctx.violation("input", dict(tree=POS[pn](w), ansi_quotes=ansi, formatted=s, reparsed=short(back, 500), word=w,
                                    requires="format quotes an identifier whenever leaving it bare would change how it parses"))
    # ---------------- system level: names in every quoting style, and names in trees
    alpha = ["a", "B", "1", " ", ".", '"', "`", "]", "[", "-", "@", "$", "é", "_", "'", "中"]
    names = [s for s in l0.strings(alpha, ctx.n(2, 3)) if s]
    names += ["".join(rnd.choice(alpha + ["x", "y"]) for _ in range(rnd.randint(3, 8))) for _ in range(ctx.n(300, 3000))]
    names += ["select", "from", "order by", "group", "a.b.c", "tbl.col", "x y.z w", "end", "null", "true"]
    if not ctx.thorough:
        names = [n for i, n in enumerate(names) if i % 4 == ctx.seed % 4]
    # a reserved word followed directly by a letter outside ASCII: the keyword matchers end a keyword there (their word characters are ASCII),
    # so the parser's guards read "forêt" as FOR + "êt" and format has to quote it
    try:
        from mo_sql_parsing.keywords import RESERVED
        import extract_tables
        rw = sorted({w[0] for w in extract_tables.spellings(RESERVED) if len(w) == 1 and w[0].isalpha()})
    except Exception:
        rw = ["for", "as", "set", "null", "in", "is", "or", "on", "select", "from", "end", "not"]
    names += [w + suf for w in (rw if ctx.thorough else [x for i, x in enumerate(rw) if i % 3 == ctx.seed % 3] + ["for", "as", "null", "select"]) for suf in ("ê", "Üx")]
    styles = [("double", lambda n: '"' + n.replace('"', '""') + '"', ["common_parser", "sqlserver_parser"]),
              ("backtick", lambda n: "`" + n.replace("`", "``") + "`", ["common_parser", "mysql_parser", "sqlserver_parser", "bigquery_parser"]),
              ("bracket", lambda n: "[" + n.replace("]", "]]") + "]", ["sqlserver_parser"])]
    wpos = {"column": (lambda q: "select %s from t" % q, lambda t: t["select"]["value"]),
            "table": (lambda q: "select a from %s" % q, lambda t: t["from"]),
            "col_alias": (lambda q: "select a as %s from t" % q, lambda t: t["select"]["name"]),
            "tab_alias": (lambda q: "select a from t as %s" % q, lambda t: t["from"]["name"]),
            "qualifier": (lambda q: "select %s.c from t" % q, None),
            "segment": (lambda q: "select s.%s from t" % q, None)}
    for k, n in enumerate(names):
        kl = klass(n)
        want = literal_field(n)
        for sname, qf, dialects in styles:
            q = qf(n)
            for d in dialects[: (len(dialects) if ctx.thorough else 1 + k % 2)]:
                for pn, (mk, get) in wpos.items():
                    if not ctx.thorough and (k + len(pn)) % 3:
                        continue
                    st, t = impl.outcome(impl.ENTRY[d], mk(q))
                    ctx.count(1, (n, sname, d, pn))
                    if st == "ok":
                        try:
                            got = get(t) if get else t["select"]["value"]
                        except Exception:
                            got = None
                        exp = want if get else (want + ".c" if pn == "qualifier" else "s." + want)
                        if got == exp:
                            continue
                    if kl and kl in known:
                        ctx.known(kl, "%s e.g. %s" % (known[kl]["what"], known[kl]["witness"]))
                        continue
                    ctx.violation("input", dict(entry=d, sql=mk(q), name=n, style=sname, position=pn, returned=short(t, 400) if st == "ok" else [st, str(t)],
                                                requires="the name %r (dots escaped: %r) regardless of quoting style" % (n, want)))
        # names placed in a tree: format then parse, both quote characters
        for pn in (list(POS)[:7] if ctx.thorough else [list(POS)[k % 7]]):
            for ansi in (True, False):
                tree = POS[pn](want)
                okrt, s, back = roundtrip(tree, ansi)
                ctx.count(1, (n, "tree", pn, ansi))
                if okrt:
                    continue
                if kl and kl in known:
                    ctx.known(kl, "%s e.g. %s" % (known[kl]["what"], known[kl]["witness"]))
                    continue
                if n.lower() in ("interval", "top") and ("C07:bare-keyword:" + n.lower()) in known:
                    continue
                ctx.violation("input", dict(tree=tree, ansi_quotes=ansi, formatted=s, reparsed=short(back, 500), name=n, requires="the name survives format then parse unchanged"))
    ctx.sample(dict(name=names[3], double='"' + names[3].replace('"', '""') + '"', escaped=literal_field(names[3])))


def replay(ctx, rep):
    if "tree" in rep:
        print(roundtrip(rep["tree"], rep.get("ansi_quotes", True)))
    elif "sql" in rep:
        print(impl.outcome(impl.ENTRY[rep.get("entry", "common_parser")], rep["sql"]))
    print("requires:", rep.get("requires"))
    print("VIOLATION property=C07 replay=%s" % ctx.replay)
    return 1
