# C17 — returned trees belong to the caller; format does not touch its argument.
import json, copy
from common import *
import impl, l2, gens
from props import c15, c11

THMS = ["C17_earlier_results_untouched", "C17_mutation_cannot_leak", "C17_fresh_default_null", "C17_formatter_does_not_write"]


def containers(x, acc, path="$"):
    if type(x) is dict:
        acc.append((path, x))
        for k, v in x.items():
            containers(v, acc, path + "." + str(k))
    elif type(x) is list:
        acc.append((path, x))
        for i, v in enumerate(x):
            containers(v, acc, "%s[%d]" % (path, i))
    return acc


def mutate_all(tree):
    for path, c in containers(tree, []):
        if type(c) is dict:
            c["__mutated__"] = 1
        else:
            c.append("__mutated__")
    for path, c in containers(tree, [])[::-1]:
        pass


def reorder(t, how):
    """an equal tree whose dicts list their keys in another order"""
    if isinstance(t, dict):
        ks = sorted(t) if how == "sorted" else list(reversed(list(t)))
        return {k: reorder(t[k], how) for k in ks}
    if isinstance(t, list):
        return [reorder(x, how) for x in t]
    return t


def multi_key_type(t):
    """a CAST-like call whose type descriptor has several keys (UNSIGNED INTEGER, CHAR CHARACTER SET x, MINUTE TO SECOND)"""
    if isinstance(t, dict):
        for k, v in t.items():
            if k in ("cast", "try_cast", "safe_cast", "validate_conversion") and isinstance(v, list) and len(v) == 2 and isinstance(v[1], dict) and len(v[1]) > 1:
                return True
            if multi_key_type(v):
                return True
    elif isinstance(t, list):
        return any(multi_key_type(x) for x in t)
    return False


def key_order_check(ctx, M, desc, t, s1, known):
    """format returns the same text for equal trees: dict equality does not look at key order"""
    for how in ("reversed", "sorted"):
        st, s2 = impl.outcome(M.format, reorder(copy.deepcopy(t), how))
        if (st, s2 if st == "ok" else None) != s1:
            if multi_key_type(t) and "C17:format-multi-key-type" in known:
                k = known["C17:format-multi-key-type"]
                ctx.known("C17:format-multi-key-type", "%s e.g. %s" % (k["what"], k["witness"]))
                return 0
            ctx.violation("input", dict(call=desc, observed="format returned different text for an equal tree (keys listed in %s order)" % how, first=short(s1, 300), second=short(s2, 300)))
            return 1
    return 0


def run(ctx):
    ctx.rule = ("statements = NULL-position templates + corpus sample + generator, under option combinations; for each: (1) no container of the result is shared with an earlier result of any call, "
                "with a module-level object, or twice within the result; (2) every container of the result is mutated and the statement and a probe set are parsed again and compared with deep snapshots; "
                "(3) earlier results are compared with their snapshots after later calls; (4) format leaves a deep snapshot of its argument equal and formats equal trees equally; "
                "distinct non-trivial = distinct (statement, options) whose result has at least two containers")
    A = c15.shape_or_violation(ctx)
    ok = False
    if A is not None:
        ok, out = ctx.prove("Props.C17", THMS)
        if A.get("formatter_writes"):
            ctx.log("formatter writes:", A["formatter_writes"])
    U = impl.build_all()
    M = impl.M
    known = ctx.finding_keys()
    rnd = ctx.rng("c17")
    stmts = [("common_parser", s) for s in c11.TEMPLATES]
    corp = [(c["parser"], c["sql"]) for c in impl.corpus() if len(c["sql"]) < 800]
    rnd.shuffle(corp)
    stmts += corp[:ctx.n(150, 1000)]
    g = gens.G(rnd, null_rate=0.2, max_depth=2)
    stmts += [("common_parser", g.statement()) for _ in range(ctx.n(120, 1500))]
    probes = [("common_parser", "select null, f(null), * from t"), ("common_parser", "select a from t where b is null"), ("mysql_parser", "select \"s\", null from t"),
              ("common_parser", "insert into t (a) values (null)"), ("common_parser", "delete from t")]
    module_objs = {id(M.SQL_NULL): "mo_sql_parsing.SQL_NULL", id(M.SQL_NULL["null"]): "mo_sql_parsing.SQL_NULL['null']"}
    # format purity on every corpus statement (cheap): snapshot, format twice, compare
    for entry, sql in corp[ctx.n(150, 1000):]:
        st, t = impl.outcome(impl.ENTRY[entry], sql)
        if st != "ok" or t is None:
            continue
        snap = copy.deepcopy(t)
        st1, s1 = impl.outcome(M.format, t)
        ctx.count(1, ("fmt", sql))
        if canon(t) != canon(snap):
            ctx.violation("input", dict(call=dict(entry=entry, sql=sql), observed="format modified its argument", before=short(snap, 600), after=short(t, 600)))
            continue
        st2, s2 = impl.outcome(M.format, t)
        if (st1, s1 if st1 == "ok" else None) != (st2, s2 if st2 == "ok" else None):
            ctx.violation("input", dict(call=dict(entry=entry, sql=sql), observed="format returned different text the second time", first=short(s1, 300), second=short(s2, 300)))
        key_order_check(ctx, M, dict(entry=entry, sql=sql), snap, (st1, s1 if st1 == "ok" else None), known)
    seen_ids = {}          # id -> description of the earlier result holding it (kept alive in `alive`)
    alive = []
    snapshots = []         # (description, tree object, deep snapshot)
    found = 0
    for entry, sql in stmts:
        f = impl.ENTRY[entry]
        opts = rnd.choice([{}, {}, {"calls": M.normal_op}, {"all_columns": "*"}, {"null": None}, {"calls": M.normal_op, "null": 0}])
        st, t = impl.outcome(f, sql, **opts)
        if st != "ok" or t is None:
            continue
        desc = dict(entry=entry, sql=sql, options={k: getattr(v, "__name__", v) for k, v in opts.items()})
        cs = containers(t, [])
        ctx.count(1, (sql, json.dumps(desc["options"], default=str)) if len(cs) >= 2 else None)
        # (1) sharing
        local = {}
        for path, c in cs:
            if id(c) in module_objs:
                ctx.violation("history", dict(call=desc, path=path, observed="the result contains the module-level object %s" % module_objs[id(c)], requires="returned trees are owned by the caller")); found += 1
            elif id(c) in seen_ids:
                ctx.violation("history", dict(call=desc, path=path, earlier=seen_ids[id(c)], observed="a container of this result is the same object as a container of an earlier result", requires="returned trees are owned by the caller")); found += 1
            elif id(c) in local:
                ctx.violation("history", dict(call=desc, path=path, other_path=local[id(c)], observed="one container object occurs twice in the result (mutating one place changes the other)", requires="returned trees are owned by the caller")); found += 1
            local[id(c)] = path
        # (4) format purity on the tree as returned
        snap = copy.deepcopy(t)
        st1, s1 = impl.outcome(M.format, t)
        if canon(t) != canon(snap):
            ctx.violation("input", dict(call=desc, observed="format modified its argument", before=short(snap, 600), after=short(t, 600))); found += 1
        st2, s2 = impl.outcome(M.format, copy.deepcopy(snap))
        if (st1, s1 if st1 == "ok" else None) != (st2, s2 if st2 == "ok" else None):
            ctx.violation("input", dict(call=desc, observed="format returned different text for equal trees", first=short(s1, 300), second=short(s2, 300))); found += 1
        found += key_order_check(ctx, M, desc, snap, (st1, s1 if st1 == "ok" else None), known)
        # (2) mutate every container, parse again
        fresh_before = [impl.outcome(impl.ENTRY[e], q) for e, q in probes]
        mutate_all(t)
        st3, t3 = impl.outcome(f, sql, **opts)
        if st3 != "ok" or canon(t3) != canon(snap):
            ctx.violation("history", dict(history=[desc, "mutate every container of the result (add a key / append an element)", desc], returned=short(t3, 700), requires="same tree as before: " + short(snap, 700))); found += 1
        after = [impl.outcome(impl.ENTRY[e], q) for e, q in probes]
        for (e, q), b, a in zip(probes, fresh_before, after):
            if canon(b) != canon(a):
                ctx.violation("history", dict(history=[desc, "mutate every container of the result", dict(entry=e, sql=q)], returned=short(a, 600), requires=short(b, 600))); found += 1
        # (3) earlier results untouched by this call
        for d0, t0, s0 in snapshots[-6:]:
            if canon(t0) != canon(s0):
                ctx.violation("history", dict(history=[d0, desc], observed="an earlier result was modified by a later call", earlier_now=short(t0, 600), earlier_was=short(s0, 600))); found += 1
        if st3 == "ok" and t3 is not None:
            for path, c in containers(t3, []):
                seen_ids[id(c)] = dict(call=desc, path=path)
            alive.append(t3)
            snapshots.append((desc, t3, copy.deepcopy(t3)))
        if found > 12:
            break
    ctx.sample(dict(last_call=desc))
    if (A is None or not ok) and not found:
        ctx.violation("obligation", dict(broken="Props/C17.v: fresh_default_null / formatter_writes / shape_okb no longer check against the source (or the translator failed closed)", shape=A), no_input=True)


def replay(ctx, rep):
    print(json.dumps(rep, indent=1)[:3000])
    print("VIOLATION property=C17 replay=%s" % ctx.replay)
    return 1
