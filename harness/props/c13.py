# C13 — a script parses to the list of its statements' trees.
import json, re
from common import *
import impl, l0, gens

THMS = ["C13_statement_list", "C13_none_single_list", "C13_empty_block_skipped", "C13_directive_inside_literal_refuted", "C13_custom_delimiter_mid_line_refuted", "C13_custom_delimiter_inside_literal_refuted"]
HEADER = ("From Coq Require Import List NArith Bool.\nFrom MoSql Require Import Model.Lit Model.Script.\nImport ListNotations.\nOpen Scope N_scope.\n"
          "Definition seqb (x y : list N) : bool := if list_eq_dec N.eq_dec x y then true else false.\n"
          "Fixpoint lseqb (x y : list (list N)) : bool := match x, y with [], [] => true | a :: x', b :: y' => seqb a b && lseqb x' y' | _, _ => false end.\n"
          "Fixpoint nl_eqb (x y : list nat) : bool := match x, y with [], [] => true | a :: x', b :: y' => Nat.eqb a b && nl_eqb x' y' | _, _ => false end.\n"
          "Definition on_eqb (a b : option (list nat)) : bool := match a, b with Some x, Some y => nl_eqb x y | None, None => true | _, _ => false end.\n")
PIECES = ["select 1", "select 'a;b'", "delimiter $$", "DELIMITER ;", " delimiter //", "delimiter  |", "Delimiter go", "\n", "\n", " ", "\t", ";", "$$", "//", "|", "go", "select 2", "x",
          "delimiter", "delimiter \n", "\r", "  \n", "$$ \n", "// x", ";\n", "\x0b", "\xa0", "delimiter ;;\n", ";;"]
STATEMENTS = ["select a from t", "select 'x;y' from t", "select \"a;b\" from t", "select a -- c;d\n from t", "select a /* ; */ from t", "insert into t (a) values (1)", "delete from t where a = ';'",
              "select `p;q` from t", "update t set a = 1", "select 1", "create table t (a int)",
              # statement kinds that contain other statements: they must end where their own text ends
              "create procedure p() select 1", "create procedure p2(a int) begin select a; end", "begin select 1; select 2; end", "create view v as select 1", "explain select 1",
              "with w as (select 1) select * from w", "start transaction", "commit", "drop table t", "create index i on t (a)", "set @a = 1", "declare x int default 1"]


def run(ctx):
    ctx.rule = ("unit level: parse_delimiters on random scripts assembled from %d pieces (statements, directives in varied case and spacing, delimiters, exotic whitespace) against the Coq model; "
                "the token-level statement list many_command on all separator / statement sequences to length 7; system level: sequences of 0-6 statements (some containing ';' inside literals, quoted "
                "identifiers and comments) joined with every separator form, and DELIMITER blocks with 6 delimiter strings: parse(script) must equal the list of the individual trees; "
                "distinct non-trivial = distinct scripts" % len(PIECES))
    ok, out = ctx.prove("Props.C13", THMS)
    M = impl.M
    rnd = ctx.rng("c13")
    checks, meta = [], []
    for _ in range(ctx.n(2500, 30000)):
        s = "".join(rnd.choice(PIECES) for _ in range(rnd.randint(0, 10)))
        try:
            real = list(M.parse_delimiters(s))
        except Exception as e:
            real = None
        if real is None:
            continue
        checks.append("lseqb (mparse_delimiters %s) [%s]" % (l0.cs(s), "; ".join(l0.cs(x) for x in real))); meta.append(("parse_delimiters", s))
        ctx.count(1, s)
    # many_command at token level against the grammar: statement tokens are `select <n>`
    import itertools
    for L in range(0, ctx.n(6, 8)):
        for tup in itertools.product([0, 1], repeat=L):
            toks, text, k = [], [], 0
            for b in tup:
                if b:
                    k += 1; toks.append("Stmt %d%%nat" % k); text.append("select %d" % k)
                else:
                    toks.append("Semi"); text.append(";")
            st, v = impl.outcome(M.parse, " ".join(text))
            if st == "ok":
                got = [] if v is None else ([v] if isinstance(v, dict) else v)
                exp = "(Some [%s])" % "; ".join("%d%%nat" % t["select"]["value"] for t in got)
            elif st == "pe":
                exp = "None"
            else:
                continue
            checks.append("on_eqb (many_command [%s]) %s" % ("; ".join(toks), exp)); meta.append(("many_command", " ".join(text)))
            ctx.count(1, " ".join(text))
    bad, log = l0.run_checks(ctx, "c13", HEADER, checks)
    if bad is None:
        ctx.obligation("correspondence evaluated", False, log[-2000:])
        ctx.violation("obligation", dict(what="correspondence check could not be evaluated by coqc", log=log[-2000:]), no_input=True)
        bad = []
    ctx.traces = len(checks)
    ctx.obligation("correspondence: Model/Script.v = parse_delimiters and the grammar's many_command on %d cases" % len(checks), not bad)
    unit_bad = [meta[i] for i in bad[:6]]
    # ---------------- the property itself
    g = gens.G(rnd, null_rate=0.05, max_depth=1)
    pool = list(STATEMENTS) + [s for s in (g.statement() for _ in range(60)) if len(s) < 160 and ";" not in s][:25]
    solo = {}
    for s in pool:
        st, t = impl.outcome(M.parse, s)
        if st == "ok" and isinstance(t, dict):
            solo[s] = t
    pool = list(solo)
    seps = [";", ";;", "; \n", " ;\n", ";\n\n;", " ; ", "; /* c; */ ;", "; -- x\n;", ";# y\n ;"]      # an empty statement may consist of a comment
    found = 0
    for _ in range(ctx.n(400, 6000)):
        n = rnd.randint(0, 6)
        stm = [rnd.choice(pool) for _ in range(n)]
        script = rnd.choice(["", ";", " ", ";;\n", "-- lead;\n", "/* hdr */;-- x\n;", "/* only */;"])
        for i, s in enumerate(stm):
            script += s
            if i < n - 1 or rnd.random() < 0.6:
                script += rnd.choice(seps)
        script += rnd.choice(["", " ", "\n", "-- end; x", "/* ; */", "; -- done\n;", ";/* c */;"]) if n else rnd.choice(["", " ", "-- end; x", "/* ; */", ";-- comments\n;"])
        want = None if n == 0 else (solo[stm[0]] if n == 1 else [solo[s] for s in stm])
        st, got = impl.outcome(M.parse, script)
        ctx.count(1, script)
        if st != "ok" or canon(got) != canon(want):
            ctx.violation("input", dict(script=script, statements=stm, returned=short(got, 900) if st == "ok" else [st, str(got)], requires=short(want, 900)))
            found += 1
            if found > 6:
                break
    # DELIMITER blocks
    delims = ["//", "$$", ";;", "|", "go", "@@"]
    for _ in range(ctx.n(300, 4000)):
        script, want = "", []
        cur = ";"
        for b in range(rnd.randint(1, 3)):
            # a block of statements under the current delimiter
            stm = [rnd.choice([s for s in pool if cur not in s and "\n" not in s]) for _ in range(rnd.randint(0, 3))]
            if cur != ";" and rnd.random() < 0.4:
                # the delimiter's text in the middle of a line, inside a literal, a comment, a quoted name or as part of an operator: not a separator there
                inner = [x for x in ("select 'a%sb' as c1 from t1" % cur, "select 1 /* %s */ from t2" % cur, 'select "n%sm" from t3' % cur, "select a1 || b1 as c from t4", "select 'x' as category from t5")
                         if cur in x and not x.endswith(cur)]
                for x in inner:
                    if x not in solo:
                        st0, t0 = impl.outcome(M.parse, x)
                        if st0 == "ok" and isinstance(t0, dict):
                            solo[x] = t0
                inner = [x for x in inner if x in solo]
                if inner:
                    stm.insert(rnd.randrange(len(stm) + 1), rnd.choice(inner))
            for s in stm:
                script += s + cur + rnd.choice(["\n", " \n", "\n\n"])
                want.append(solo[s])
            if b < 2 and rnd.random() < 0.8:
                cur = rnd.choice(delims + [";"])
                directive = rnd.choice(["DELIMITER %s", "delimiter %s", " Delimiter  %s"]) % cur
                script += directive + "\n"
                want.append({"delimiter": cur}) if False else want.append(("DIRECTIVE", directive.strip() if False else directive))
        # expected trees: directives appear as their own entries (whatever the grammar makes of the directive text)
        exp = []
        okexp = True
        for w in want:
            if isinstance(w, tuple):
                st, t = impl.outcome(M.parse, w[1].strip() if False else w[1])
                # the directive line parsed alone is itself split by parse_delimiters; take the grammar's tree of the matched text via a one-directive script
                st, t = impl.outcome(M.parse, w[1] + "\n")
                if st != "ok":
                    okexp = False
                    break
                exp.append(t)
            else:
                exp.append(w)
        if not okexp:
            continue
        want_tree = None if not exp else (exp[0] if len(exp) == 1 else exp)
        st, got = impl.outcome(M.parse, script)
        ctx.count(1, script)
        if st != "ok" or canon(got) != canon(want_tree):
            ctx.violation("input", dict(script=script, returned=short(got, 900) if st == "ok" else [st, str(got)], requires=short(want_tree, 900)))
            found += 1
            if found > 12:
                break
    ctx.sample(dict(script=script))
    for m in unit_bad:
        ctx.violation("input", dict(function=m[0], argument=m[1], broken="correspondence Model/Script.v vs implementation (C13 theorems are proved about the model)"), no_input=True)


def replay(ctx, rep):
    print(impl.outcome(impl.M.parse, rep.get("script", "")))
    print("requires:", rep.get("requires"))
    print("VIOLATION property=C13 replay=%s" % ctx.replay)
    return 1
