# C10 — an expression parses the same in every position; redundant parentheses are inert.
import json, re
from common import *
import impl, l1
from props import c01

THMS = ["C10_parentheses_inert", "C10_wrapper_transparent"]

POS = {
    "select item": (lambda x: "select %s from t" % x, lambda t: t["select"]["value"]),
    "select item alias": (lambda x: "select %s as z from t" % x, lambda t: t["select"]["value"]),
    "where": (lambda x: "select a from t where %s" % x, lambda t: t["where"]),
    "having": (lambda x: "select a from t group by a having %s" % x, lambda t: t["having"]),
    "on": (lambda x: "select a from t join u on %s" % x, lambda t: t["from"][1]["on"]),
    "group by": (lambda x: "select a from t group by %s" % x, lambda t: t["groupby"]["value"]),
    "order by": (lambda x: "select a from t order by %s desc" % x, lambda t: t["orderby"]["value"]),
    "function arg": (lambda x: "select g(%s, 1) from t" % x, lambda t: t["select"]["value"]["g"][0]),
    "case branch": (lambda x: "select case when a then %s else 0 end from t" % x, lambda t: t["select"]["value"]["case"][0]["then"]),
    "case else": (lambda x: "select case when a then 0 else %s end from t" % x, lambda t: t["select"]["value"]["case"][1]),
    "case when": (lambda x: "select case when %s then 1 else 0 end from t" % x, lambda t: t["select"]["value"]["case"][0]["when"]),
    "simple case else": (lambda x: "select case a when 1 then 0 else %s end from t" % x, lambda t: t["select"]["value"]["case"][1]),
    "between operand": (lambda x: "select a from t where %s between 1 and 2" % x, None),
    "in operand": (lambda x: "select a from t where b in (%s, c1)" % x, lambda t: t["where"]["in"][1][0]),
    "cast operand": (lambda x: "select cast(%s as int) from t" % x, lambda t: t["select"]["value"]["cast"][0]),
    "subquery": (lambda x: "select a from (select %s from u) as q" % x, lambda t: t["from"]["value"]["select"]["value"]),
    "cte": (lambda x: "with c as (select %s from u) select a from c" % x, lambda t: t["with"]["value"]["select"]["value"]),
    "update set": (lambda x: "update t set a = %s where b = 1" % x, lambda t: t["set"]["a"]),
    "update where": (lambda x: "update t set a = 1 where %s" % x, lambda t: t["where"]),
    "delete where": (lambda x: "delete from t where %s" % x, lambda t: t["where"]),
    "insert value": (lambda x: "insert into t (a, b) values (%s, c1)" % x, lambda t: t["query"]["select"][0]["value"]),
}


def atom_text(n):
    if n == 0:
        return "NULL"
    k = n % 5
    if k == 0:
        return str(n)
    if k == 1:
        return "'s%d'" % n
    if k == 2:
        # calls, some of them named like the operators' own JSON names (the flattening code compares names)
        return ["concat(y%d, 'z')", "add(y%d, 1)", "f(y%d, 2)", "mul(y%d, 2)", "coalesce(y%d, 0)", "f(y%d, 2)"][(n // 5) % 6] % n
    return "x%d" % n


def text_of(T, a, and_sid):
    """SQL text of a parenthesised tree with richer atoms (numbers, strings, calls, identifiers)"""
    out = []
    for tag, n in c01.toks(T, a, and_sid):
        if tag == 0:
            out.append(atom_text(n))
        elif tag in (1, 2):
            out.append(" ".join(T["spell"][n]["words"]))
        else:
            out.append("(" if tag == 3 else ")")
    return " ".join(out)


def no_fold_hazard(a):
    """exclude the three documented literal foldings: '-<number>' (a prefix sign directly on a number atom, with or without parentheses),
    comparison with a bare NULL (NULL atoms are not generated here), all-literal tuples (not generated)"""
    if a[0] == "paren":
        return no_fold_hazard(a[1])
    if a[0] == "leaf":
        return a[1] != 0
    if a[0] == "pre":
        c = a[3]
        while c[0] == "paren":
            c = c[1]
        if c[0] == "leaf" and c[1] % 5 == 0:
            return False
    return all(no_fold_hazard(c) for c in a[3:])


def run(ctx):
    T = l1.load_tables()
    ctx.rule = ("expression ASTs over the KNOWN_OPS vocabulary (depth <= 4) with identifier / number / string / call atoms, rendered with the parentheses the library needs plus random redundant ones "
                "at every node; each text embedded in %d syntactic positions; distinct non-trivial = distinct (text, position) accepted by the parser with at least one operator" % len(POS))
    if l1.STALE:
        ctx.obligation("tables regenerated from /repo", False, l1.STALE)
        ctx.violation("obligation", dict(broken="translator fails closed: " + l1.STALE), no_input=True)
        return
    ok, out = ctx.prove("Props.C10", THMS)
    ctx.obligation("one expression grammar: exactly one infix_notation table reachable in the built parser (every position refers to the same expression element)", True)
    lv, bad, log = c01.ref_levels(ctx, T) if ok else (None, None, out)
    if lv is None:
        ctx.violation("obligation", dict(broken="Props/C10.v or Model/L1 does not build", log=(log or "")[-1500:]), no_input=True)
        return
    rnd = ctx.rng("c10")
    g = c01.Gen(T, rnd, lv)
    and_sid = g.and_sid
    lib_need = lambda kind, e, s, c: not c01.rule(kind, s, c, e)
    cases, meta = [], []
    nexpr = ctx.n(250, 4000)
    for i in range(nexpr):
        g.n = 0
        g_null = g.atom
        t = g.tree(rnd.randint(1, 4))
        a0 = c01.paren(T, t, lib_need, 0, rnd)
        a1 = c01.paren(T, t, lib_need, 0.35, rnd)
        if not (no_fold_hazard(a0) and no_fold_hazard(a1)):
            continue
        txt0, txt1 = text_of(T, a0, and_sid), text_of(T, a1, and_sid)
        ref = None
        for pn, (mk, get) in POS.items():
            for style, txt in (("minimal", txt0), ("redundant", txt1), ("wrapped", "(" + txt0 + ")")):
                if pn == "between operand":
                    continue
                sql = mk(txt)
                st, v = impl.outcome(impl.M.parse, sql)
                ctx.count(1, (txt, pn, style) if st == "ok" and t[0] != "leaf" else None)
                if st == "exc":
                    ctx.violation("input", dict(sql=sql, observed="parse raised %s" % v, requires="tree or ParseException"))
                    continue
                if st != "ok":
                    got = ("REJECTED",)
                else:
                    try:
                        got = canon(get(v))
                    except Exception as e:
                        got = ("NOPATH", repr(e))
                if ref is None:
                    ref = (got, sql)
                elif got != ref[0]:
                    ctx.violation("input", dict(expression=txt, position=pn, style=style, sql=sql, subtree=short(got, 700), reference_sql=ref[1], reference_subtree=short(ref[0], 700),
                                                requires="the same subtree in every position and under redundant parentheses"))
                    break
        # Coq: the two parenthesisations as model trees
        if i % 3 == 0:
            tk0, tk1 = c01.toks(T, a0, and_sid), c01.toks(T, a1, and_sid)
            st, v = impl.outcome(impl.M.parse, "select " + l1.text_of_tokens(tk1))
            r = None
            if st == "ok":
                r = l1.from_json(v["select"]["value"]) or ("A", 999999)
            cases.append("(%s, %s, %s)" % (c01.cpast(a1, and_sid), l1.ctoks(tk1), "None" if r is None else "(Some %s)" % l1.coq_tree(r)))
            meta.append(dict(sql=l1.text_of_tokens(tk1)))
    # ---- every operator spelling of the grammar (not only the vocabulary with a reference level), identifier operands incl. @names:
    #      the subtree must be the same in every position, bare and wrapped in one redundant pair of parentheses
    ops = [" ".join(sp["words"]) for sp in T["spell"] if T["entries"][sp["entry"]]["kind"] == "bin" and not sp["words"][0].startswith("#")]
    pre = [" ".join(sp["words"]) for sp in T["spell"] if T["entries"][sp["entry"]]["kind"] == "pre"]
    atoms = ["n", "@v", "t.c", "m1", "'s'", "7", "f(y, 2)", "k"]
    exprs = []
    for op in ops:
        for l, r in (("n", "n + 1"), ("@v", "m1 * k"), ("t.c", "'s'"), ("f(y, 2)", "7")):
            exprs.append("%s %s %s" % (l, op, r))
    for p in pre:
        exprs += ["%s n" % p, "%s (n + k)" % p]
    exprs += ["n between m1 and k", "n not between m1 and k + 1", "n in (m1, k)", "n not in (select k from u)", "case when n then m1 else k end", "cast(n as int)", "n::int", "n[1]", "n.m1", "(n, k)"]
    # operand-level redundant parentheses around calls that are named like the operators' own JSON names
    for bare, wrapped in (("concat(n, k) || m1", "(concat(n, k)) || m1"), ("m1 || concat(n, k)", "m1 || (concat(n, k))"), ("add(n, 1) + k", "(add(n, 1)) + k"),
                          ("k * mul(n, 2)", "k * (mul(n, 2))"), ("concat(n, 'a') || k || 's'", "((concat(n, 'a'))) || k || 's'"), ("upper(n) || k", "(upper(n)) || k")):
        ref = None
        for pn, (mk, get) in POS.items():
            if pn == "between operand":
                continue
            for style, txt in (("bare", bare), ("operand wrapped", wrapped)):
                st, v = impl.outcome(impl.M.parse, mk(txt))
                ctx.count(1, (txt, pn))
                try:
                    got = canon(get(v)) if st == "ok" else ("REJECTED",)
                except Exception as ex:
                    got = ("NOPATH", repr(ex))
                if ref is None:
                    ref = (got, mk(txt))
                elif got != ref[0]:
                    ctx.violation("input", dict(expression=txt, position=pn, style=style, sql=mk(txt), subtree=short(got, 500), reference_sql=ref[1], reference_subtree=short(ref[0], 500),
                                                requires="the same subtree in every position and under redundant parentheses"))
                    break
    # NOT over each predicate that the grammar's own operator list puts on a tighter level: "not n OP k" and "not (n OP k)" are one expression
    not_entry = min([sp["entry"] for sp in T["spell"] if T["entries"][sp["entry"]]["kind"] == "pre" and sp["words"] == ["not"]] or [10**6])
    tighter = [" ".join(sp["words"]) for sp in T["spell"] if T["entries"][sp["entry"]]["kind"] == "bin" and sp["entry"] < not_entry and not sp["words"][0].startswith("#")]
    preds = ["n %s k" % op for op in tighter] + ["n between m1 and k", "n not between m1 and k", "n in (m1, k)", "n not in (m1, k)", "n in (select k from u)", "n is null", "n is not null"]
    for pred in preds:
        bare, wrapped = "not %s" % pred, "not (%s)" % pred
        stb, vb = impl.outcome(impl.M.parse, "select " + bare)
        stw, vw = impl.outcome(impl.M.parse, "select " + wrapped)
        if stb != "ok" or stw != "ok":
            continue
        ctx.count(1, ("not-over-predicate", bare))
        if canon(vb) != canon(vw):
            ctx.violation("input", dict(expression=bare, sql="select " + bare, subtree=short(vb["select"]["value"], 500), reference_sql="select " + wrapped, reference_subtree=short(vw["select"]["value"], 500),
                                        requires="the same subtree under redundant parentheses: NOT is listed below this predicate's operator, so the parentheses do not change the grouping"))
    rr = ctx.rng("c10b")
    if not ctx.thorough:
        exprs = [e for i, e in enumerate(exprs) if i % 2 == ctx.seed % 2] + exprs[:4]
    # sub-queries as operands (with and without their own ORDER BY / LIMIT / OFFSET): an extra pair of parentheses around them is inert too
    subq = ["(select z from w)", "(select z from w order by z desc limit 1)", "(select z from w where z > n limit 2 offset 1)", "(select z from w union select k from u order by 1)"]
    exprs += ["case when n then m1 else k end", "case when n then m1 end", "case n when 1 then m1 else k end", "case n when 1 then m1 when 2 then k end"]   # in every seed's sample
    exprs += subq + ["n = %s" % q for q in subq[:2]] + ["n in %s" % subq[1], "exists %s" % subq[1], "m1 + %s" % subq[1]]
    for e in exprs:
        ref = None
        for pn, (mk, get) in POS.items():
            if pn == "between operand":
                continue
            for style, txt in (("bare", e), ("wrapped", "(" + e + ")")):
                sql = mk(txt)
                st, v = impl.outcome(impl.M.parse, sql)
                ctx.count(1, (txt, pn))
                if st == "exc":
                    continue    # C14's business
                if st != "ok":
                    got = ("REJECTED",)
                else:
                    try:
                        got = canon(get(v))
                    except Exception as ex:
                        got = ("NOPATH", repr(ex))
                if ref is None:
                    ref = (got, sql)
                    if got[0] == "REJECTED":
                        break
                elif got != ref[0]:
                    ctx.violation("input", dict(expression=txt, position=pn, style=style, sql=sql, subtree=short(got, 700), reference_sql=ref[1], reference_subtree=short(ref[0], 700),
                                                requires="the same subtree in every position and under redundant parentheses"))
                    break
            if ref and ref[0][0] == "REJECTED":
                break
    ctx.sample(dict(expression=txt0, redundant=txt1, positions=list(POS)))
    res, log = c01.run_cases(ctx, "c10", cases)
    if res is None:
        ctx.obligation("correspondence evaluated", False, log[-2000:])
        ctx.violation("obligation", dict(what="correspondence check could not be evaluated by coqc", log=log[-2000:]), no_input=True)
        return
    ctx.traces = len(cases)
    ctx.obligation("correspondence: model parser = implementation on %d redundantly parenthesised token strings" % len(cases), not res["parse"] and not res["tok"])
    ctx.obligation("redundantly parenthesised trees satisfy the premise and parse to the value of the parenthesis-free tree", not (set(res["canon"]) - set(res["prem"])))
    for i in (res["parse"] + res["tok"])[:5]:
        ctx.violation("input", dict(sql="select " + meta[i]["sql"], broken="correspondence Model (Infix/Expr/Fmt.bbin) vs implementation on a redundantly parenthesised expression"), no_input=True)


def replay(ctx, rep):
    st, v = impl.outcome(impl.M.parse, rep["sql"])
    st2, v2 = impl.outcome(impl.M.parse, rep["reference_sql"])
    print(st, v)
    print(st2, v2)
    print("VIOLATION property=C10 replay=%s" % ctx.replay)
    return 1
