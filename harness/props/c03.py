# C03 — parse -> format -> parse is the identity on the formatter-supported fragment.
import json, re, hashlib, os
from common import *
import impl, l1, gens
from props import c01

THMS = ["C03_parse_format_parse"]
SETOPS = ("union", "union_all", "intersect", "except", "minus")
FOLDS = ("eq", "neq", "eq!", "ne!")
BASELINE = VERIF + "/corpus/c03_roundtrip_ok.json"


def hazards(t, bad_triples, T, out=None):
    """features of a parse tree under which the pinned formatter is known not to round-trip (each is a listed finding)"""
    out = set() if out is None else out
    if isinstance(t, float):
        if "e" in repr(t) or "inf" in repr(t) or "nan" in repr(t):
            out.add("C03:float-exponent")
    elif isinstance(t, list):
        for v in t:
            hazards(v, bad_triples, T, out)
    elif isinstance(t, dict):
        if len(t) == 1:
            (op, args), = t.items()
            al = args if isinstance(args, list) else [args]
            if op in T["info"]:
                kind = T["info"][op]["kind"]
                for i, a in enumerate(al):
                    if isinstance(a, dict) and len(a) == 1:
                        (cop, _), = a.items()
                        s = (0 if i == 0 else 1) if kind == "KNary" else i
                        if (op, s, cop) in bad_triples:
                            out.add("C03:expression-parentheses")
            if op in FOLDS and any(a == {"null": {}} for a in al):
                out.add("C03:comparison-with-bare-null")
            if op in ("in", "nin") and len(al) == 2 and isinstance(al[1], dict) and not ({"literal", "select", "select_distinct", "from"} & set(al[1])):
                out.add("C03:in-single-expression")
        for k in SETOPS:
            if k in t:
                ops = t[k] if isinstance(t[k], list) else [t[k]]
                for i, o in enumerate(ops):
                    if isinstance(o, dict):
                        if {"orderby", "limit", "offset", "fetch"} & set(o):
                            out.add("C03:setop-operand-with-order")
                        if "with" in o:
                            out.add("C03:setop-operand-with-cte")
                        if (set(SETOPS) & set(o)) and (i > 0 or k in ("union", "union_all")):
                            out.add("C03:nested-setop")
                        if "from" in o and isinstance(o["from"], dict) and set(SETOPS) & set(o["from"]):
                            out.add("C03:setop-operand-with-order")
        if "over" in t and isinstance(t["over"], dict) and "range" in t["over"] and not ({"partitionby", "orderby"} & set(t["over"])):
            out.add("C03:frame-only-over")
        if "over" in t and isinstance(t["over"], dict) and "range" in t["over"]:
            r = t["over"]["range"]
            if isinstance(r, dict) and "min" not in r and "max" not in r:
                out.add("C03:unbounded-frame")
        for v in t.values():
            hazards(v, bad_triples, T, out)
    return out


def roundtrip(entry, sql):
    f = impl.ENTRY[entry]
    st, t = impl.outcome(f, sql)
    if st != "ok" or t is None:
        return None
    st2, txt = impl.outcome(impl.M.format, t)
    if st2 != "ok":
        return dict(tree=t, fail="format raised %s" % txt, text=None)
    st3, t2 = impl.outcome(f, txt)
    if st3 != "ok":
        return dict(tree=t, fail="re-parse rejected (%s)" % (t2,), text=txt)
    if canon(t2) != canon(t):
        return dict(tree=t, fail="different tree", text=txt, back=t2)
    # normaliser: formatting the re-parsed tree gives the same text
    st4, txt2 = impl.outcome(impl.M.format, t2)
    if st4 != "ok" or txt2 != txt:
        return dict(tree=t, fail="format(parse(.)) is not a fixed point", text=txt, back=txt2)
    return dict(tree=t, fail=None, text=txt)


def fragment_statement(g, rnd):
    g.n = 0
    x = rnd.random()
    s = g.query(1) if x < 0.8 else (g.insert() if x < 0.9 else g.delete())
    return s


def run(ctx):
    T = l1.load_tables()
    ctx.rule = ("statements = grammar-directed generator for the fragment (queries with joins / set operations / CTEs / windows, INSERT, DELETE; expressions to depth 2-3 in every clause) "
                "+ the corpus statements that round-trip on the pinned tree (corpus/c03_roundtrip_ok.json); distinct non-trivial = distinct accepted statements; "
                "a statement whose tree carries none of the listed hazard features must satisfy parse(format(parse(s))) == parse(s) and format must not raise")
    if l1.STALE:
        ctx.obligation("tables regenerated from /repo", False, l1.STALE)
        ctx.violation("obligation", dict(broken="translator fails closed: " + l1.STALE), no_input=True)
        return
    ok, out = ctx.prove("Props.C03", THMS)
    from props import casex
    casex.case_stage(ctx, "C03")
    casex.query_stage(ctx)
    casex.trim_stage(ctx)
    known = ctx.finding_keys()
    c04 = [f for f in load_findings()["findings"] if f["property"] == "C04"]
    bad_triples = {tuple(t) for f in c04 for t in f.get("triples", [])}
    # ---- the table-derived exclusion set must be covered by the listed findings (as in C04); a new triple is replayed as a full round trip
    from props import c04
    bad, blog = c04.compute_bad(ctx) if ok else (None, "")
    if bad is not None:
        new = [t for t in bad if t not in bad_triples]
        ctx.obligation("every (parent, slot, child) triple where the formatter omits parentheses the parser needs is a listed finding", not new, new[:10])
        for (P, s, C) in new[:25]:
            tree = l1.make_depth2(P, s, C)
            sql = "select " + l1.full_sql(tree) + " from t"
            r = roundtrip("common_parser", sql)
            ctx.count(1)
            if r and r["fail"]:
                ctx.violation("input", dict(entry="common_parser", sql=sql, tree=short(r["tree"], 600), formatted=r["text"], observed=r["fail"], reparsed=short(r.get("back"), 600),
                                            requires="parse(format(parse(sql))) == parse(sql)", triple=[P, s, C]))
            else:
                ctx.violation("obligation", dict(triple=[P, s, C], sql=sql, broken="edges_ok' fails for this edge in some reachable context (Model/L1.bad_triples); the depth-2 statement itself round-trips"), no_input=True)
    rnd = ctx.rng("c03")
    g = gens.G(rnd, null_rate=0.04, max_depth=2)
    g.locking = False
    n_ok = n_haz = 0
    stmts = []
    while len(stmts) < ctx.n(700, 12000):
        s = fragment_statement(g, rnd)
        if len(s) < 320:
            stmts.append(("common_parser", s))
    # identifiers that are keywords in some spelling (quoted in the source): the formatter has to quote them again
    try:
        from mo_sql_parsing.keywords import RESERVED
        import extract_tables
        rw = sorted({w[0].lower() for w in extract_tables.spellings(RESERVED) if len(w) == 1 and w[0].isalpha()})
    except Exception:
        rw = ["from", "select", "where", "order", "null", "true", "not", "union", "in", "to"]
    for w in rnd.sample(rw, min(len(rw), ctx.n(12, 80))):
        for sp in (w, w.capitalize(), w.upper()):
            stmts.append(("common_parser", 'select "%s", a as "%s" from t where "%s" = 1 order by "%s"' % (sp, sp, sp, sp)))
            stmts.append(("common_parser", 'select x."%s" from "%s" as x group by x."%s"' % (sp, sp, sp)))
    # every form of the TOP clause (value, PERCENT, WITH TIES, parenthesised / expression value), with the other select-list modifiers
    for top in ("top 5", "top (5)", "top 5 percent", "top 5 with ties", "top 5 percent with ties", "top (n + 1) with ties", "top f(x) percent with ties", "top 0", "top 0 with ties"):
        stmts.append(("common_parser", "select %s a, b from t order by b" % top))
        stmts.append(("sqlserver_parser", "select %s * from t where a = 1" % top))
    base = json.load(open(BASELINE)) if os.path.exists(BASELINE) else []
    corpus = {hashlib.sha1((c["parser"] + "\0" + c["sql"]).encode()).hexdigest()[:16]: c for c in impl.corpus()}
    stmts += [(corpus[h]["parser"], corpus[h]["sql"]) for h in base if h in corpus]
    for entry, sql in stmts:
        r = roundtrip(entry, sql)
        if r is None:
            continue
        ctx.count(1, sql)
        hz = hazards(r["tree"], bad_triples, T)
        if r["fail"] is None:
            n_ok += 1
            continue
        if hz and all(h in known for h in hz):
            n_haz += 1
            for h in hz:
                ctx.known(h, "%s e.g. %s" % (known[h]["what"], known[h]["witness"]))
            continue
        ctx.violation("input", dict(entry=entry, sql=sql, tree=short(r["tree"], 900), formatted=r["text"], observed=r["fail"], reparsed=short(r.get("back"), 900),
                                    requires="parse(format(parse(sql))) == parse(sql), format does not raise", hazards=sorted(hz)))
    ctx.extra["roundtrip_ok"] = n_ok
    ctx.extra["failing_with_listed_hazard"] = n_haz
    ctx.sample(dict(sql=stmts[0][1]))
    ctx.sample(dict(sql=stmts[len(stmts) // 2][1]))
    # ---- expression core: premises of the theorem on the parser's own output, and model = implementation
    lv, bad, log = c01.ref_levels(ctx, T) if ok else (None, None, out)
    if lv is None:
        ctx.violation("obligation", dict(broken="Props/C03.v / Model/L1 does not build", log=(log or "")[-1500:]), no_input=True)
        return
    gg = c01.Gen(T, rnd, lv)
    lib_need = lambda kind, e, s, c: not c01.rule(kind, s, c, e)
    cases, meta = [], []
    from mo_sql_parsing.formatting import Formatter
    for _ in range(ctx.n(500, 8000)):
        gg.n = 0
        t = gg.tree(rnd.randint(1, 4))
        a = c01.paren(T, t, lib_need, 0.1, rnd)
        tk = c01.toks(T, a, gg.and_sid)
        text = l1.text_of_tokens(tk)
        st, v = impl.outcome(impl.M.parse, "select " + text)
        if st != "ok":
            continue
        tree = v["select"]["value"]
        ab = l1.from_json(tree)
        if ab is None:
            continue
        pc = T["ctx"]["select"]
        try:
            ftxt = Formatter().dispatch(tree, (pc - 4) / 2)
            ftoks = l1.tokens_of_text(ftxt)
        except Exception:
            continue
        if re.search(r"\(\s*NULL\s*\)", ftxt):
            # the formatter wrote a parenthesised NULL: the real parser does not fold a comparison with it, the model reader does
            # (boundary of the model, see DESIGN 6.1; the trees concerned are the listed finding C03:comparison-with-bare-null)
            continue
        st2, v2 = impl.outcome(impl.M.parse, "select " + ftxt)
        r = l1.from_json(v2["select"]["value"]) if st2 == "ok" else None
        if st2 == "ok" and r is None:
            r = ("A", 999999)
        cases.append("(%s, %d, %s, %s)" % (l1.coq_tree(ab), pc, l1.ctoks(ftoks), "None" if r is None else "(Some %s)" % l1.coq_tree(r)))
        meta.append(dict(sql=text, tree=tree, formatted=ftxt, reparsed=short(v2, 500)))
    res, log = l1.run_cases(ctx, "c03", cases)
    if res is None:
        ctx.obligation("correspondence evaluated", False, log[-2000:])
        ctx.violation("obligation", dict(what="correspondence check could not be evaluated by coqc", log=log[-2000:]), no_input=True)
        return
    ctx.traces = len(cases)
    ctx.obligation("correspondence on the parser's own output: model formatter tokens = implementation, model re-parse = implementation (%d expressions)" % len(cases), not res["fmt"] and not res["parse"])
    ctx.obligation("no round-trip failure on parser output whose edges satisfy edges_ok'", not (set(res["rt"]) - set(res["edge"])))
    ctx.extra["expression_premise_edges_ok_on"] = len(cases) - len(res["edge"])
    for i in (res["fmt"] + res["parse"])[:5]:
        ctx.violation("input", dict(sql="select " + meta[i]["sql"], formatted=meta[i]["formatted"], reparsed=meta[i]["reparsed"],
                                    broken="correspondence Model/Fmt.v + tables vs implementation on parser output"), no_input=(i not in res["rt"]))


def replay(ctx, rep):
    r = roundtrip(rep.get("entry", "common_parser"), rep["sql"])
    print(r)
    if r and r["fail"]:
        print("VIOLATION property=C03 replay=%s" % ctx.replay)
        return 1
    return 0
