# Shared machinery of the checks: context, evidence, findings, Coq plumbing, term serialisation.
import os, sys, json, time, hashlib, subprocess, random, fcntl, traceback, re

VERIF = "/verif"
REPO = "/repo"
COQ = VERIF + "/coq"
WORK = VERIF + "/.work"
EVID = VERIF + "/evidence"
REPLAYS = VERIF + "/replays"
PY = "/venv/bin/python"
NCPU = os.cpu_count() or 4

TRUSTED_COMMON = [
    "Coq 8.16.1 kernel (coqc); vm_compute used for table obligations and for evaluating the model on correspondence cases; native_compute not used",
    "translators harness/extract_*.py (read /repo's live objects and ASTs, print Coq text)",
    "correspondence harness (Python generators, canonicalisation, Coq term printer harness/common.py)",
    "modelled-not-verified: mo_parsing 9.3 engine, mo_dots, CPython runtime (see DESIGN.md section 7)",
]


def sh(cmd, timeout=600, cwd=None, env=None):
    e = dict(os.environ)
    if env:
        e.update(env)
    try:
        p = subprocess.run(cmd, shell=isinstance(cmd, str), cwd=cwd, env=e, timeout=timeout,
                           stdout=subprocess.PIPE, stderr=subprocess.STDOUT, text=True, errors="replace")
        return p.returncode, p.stdout
    except subprocess.TimeoutExpired as t:
        out = t.stdout or ""
        if isinstance(out, bytes):
            out = out.decode("utf8", "replace")
        return 124, out + "\nTIMEOUT"


# --------------------------------------------------------------------------- Coq terms
def cstr(s):
    """Coq term of type string for the Python str s (UTF-8 bytes)."""
    b = s.encode("utf-8", "surrogatepass")
    if all(32 <= c <= 126 for c in b):
        return '"' + s.replace('"', '""') + '"'
    return "(bs [" + ";".join(str(c) for c in b) + "])"


def cz(n):
    return "(%d)%%Z" % n


def cn(n):
    return "%d%%N" % n


def cnat(n):
    return "%d%%nat" % n if n < 4000 else "(N.to_nat %d%%N)" % n


def cbool(b):
    return "true" if b else "false"


def clist(items):
    return "[" + "; ".join(items) + "]"


def cpair(a, b):
    return "(" + a + ", " + b + ")"


def copt(x):
    return "None" if x is None else "(Some " + x + ")"


def cpoints(s):
    """Python str as list N of code points."""
    return "[" + ";".join(str(ord(c)) for c in s) + "]%N"


def cjson(x, mark=None):
    """Python JSON value -> Coq term of type jv (MoSql.Base.Json)."""
    if mark is not None and x is mark:
        return "JMark"
    if x is None:
        return "JNull"
    if x is True or x is False:
        return "(JBool %s)" % cbool(x)
    if isinstance(x, int):
        return "(JInt %s)" % cz(x)
    if isinstance(x, float):
        return "(JFloat %s)" % cstr(repr(x))
    if isinstance(x, str):
        return "(JStr %s)" % cstr(x)
    if isinstance(x, (list, tuple)):
        return "(JList %s)" % clist([cjson(v, mark) for v in x])
    if isinstance(x, dict):
        return "(JDict %s)" % clist([cpair(cstr(str(k)), cjson(v, mark)) for k, v in x.items()])
    raise TypeError("not JSON: %r" % type(x))


def canon(x):
    """Canonical, order-insensitive, type-strict form for diffing Python JSON-ish values."""
    if x is None:
        return ("null",)
    if x is True or x is False:
        return ("bool", x)
    if isinstance(x, int):
        return ("int", x)
    if isinstance(x, float):
        return ("float", repr(x))
    if isinstance(x, str):
        return ("str", x)
    if isinstance(x, (list, tuple)):
        return ("list", tuple(canon(v) for v in x))
    if isinstance(x, dict):
        return ("dict", tuple(sorted(((str(k), canon(v)) for k, v in x.items()), key=repr)))
    return ("obj", type(x).__name__)


def short(x, n=300):
    s = x if isinstance(x, str) else repr(x)
    return s if len(s) <= n else s[:n] + "..."


# --------------------------------------------------------------------------- findings
def load_findings():
    with open(VERIF + "/known_findings.json") as f:
        return json.load(f)


class Ctx:
    def __init__(self, pid, tier, seed):
        self.pid, self.tier, self.seed = pid, tier, seed
        self.t0 = time.time()
        self.violations = []          # (replay path, no_input flag)
        self.known_hits = {}          # key -> text
        self.notes = []
        self.obligations = []         # (name, ok)
        self.samples = []
        self.evaluations = 0
        self.distinct = set()
        self.traces = 0
        self.trusted = list(TRUSTED_COMMON)
        self.assumptions = []
        self.extra = {}
        self.rule = ""
        self.checker_cmds = []
        self.findings = [f for f in load_findings().get("findings", []) if f.get("property") == pid]
        self.work = os.path.join(WORK, pid)
        os.makedirs(self.work, exist_ok=True)
        # scratch case files of earlier runs of this check (nothing in .work is needed between runs)
        for f in os.listdir(self.work):
            if f.endswith((".v", ".vo", ".vos", ".vok", ".glob", ".aux")):
                try:
                    os.remove(os.path.join(self.work, f))
                except OSError:
                    pass
        os.makedirs(EVID, exist_ok=True)
        self.thorough = tier == "thorough"
        # replays of earlier runs of this property are stale: start clean
        import glob
        for f in glob.glob(os.path.join(REPLAYS, pid, "*.json")):
            try:
                os.remove(f)
            except OSError:
                pass

    # ---- randomness
    def rng(self, name):
        return random.Random("%s:%s:%s" % (self.seed, self.pid, name))

    def n(self, quick, thorough):
        return thorough if self.thorough else quick

    # ---- bookkeeping
    def log(self, *a):
        print("[%s %6.1fs]" % (self.pid, time.time() - self.t0), *a, flush=True)

    def obligation(self, name, ok, detail=""):
        self.obligations.append((name, bool(ok)))
        if not ok:
            self.log("OBLIGATION FAILED:", name, short(detail, 2000))
        return ok

    def count(self, n=1, distinct_key=None):
        self.evaluations += n
        if distinct_key is not None:
            self.distinct.add(distinct_key if isinstance(distinct_key, (str, int, tuple)) else repr(distinct_key))

    def sample(self, x, cap=8):
        if len(self.samples) < cap:
            self.samples.append(x)

    def known(self, key, text):
        self.known_hits.setdefault(key, text)

    def finding_keys(self):
        return {f["key"]: f for f in self.findings}

    def violation(self, kind, detail, no_input=False):
        """kind: input|history|schedule|obligation ; detail: JSON-able dict describing the replay"""
        os.makedirs(os.path.join(REPLAYS, self.pid), exist_ok=True)
        body = dict(property=self.pid, kind=kind, no_failing_input_found=bool(no_input), seed=self.seed, **detail)
        txt = json.dumps(body, indent=1, sort_keys=True, default=repr)
        h = hashlib.sha1(txt.encode()).hexdigest()[:12]
        path = os.path.join(REPLAYS, self.pid, h + ".json")
        with open(path, "w") as f:
            f.write(txt)
        if sum(1 for _, ni in self.violations if bool(ni) == bool(no_input)) < 20:      # at most 20 of each class are kept
            self.violations.append((path, bool(no_input)))
        self.log("violation recorded:", kind, short(detail, 600))

    # ---- Coq
    def coq_make(self, targets, timeout=1500):
        """(Re)build the given .vo targets (relative to coq/) after regeneration; returns (ok, log)."""
        ensure_makefile()
        with open(VERIF + "/.build.lock", "w") as lk:
            fcntl.flock(lk, fcntl.LOCK_EX)
            cmd = ["timeout", str(timeout), "make", "-C", COQ, "-j%d" % NCPU] + list(targets)
            rc, out = sh(cmd, timeout=timeout + 30)
        self.checker_cmds.append("make -C coq " + " ".join(targets))
        return rc == 0, out

    def coq_eval(self, name, text, timeout=900):
        """Compile a scratch file importing the built development; returns (ok, output)."""
        path = os.path.join(self.work, name + ".v")
        with open(path, "w") as f:
            f.write(text)
        rc, out = sh(["timeout", str(timeout), "coqc", "-Q", COQ, "MoSql", "-Q", self.work, "Work_" + self.pid, path],
                     timeout=timeout + 30, cwd=self.work)
        return rc == 0, out

    def print_assumptions(self, module, thms):
        """Returns dict thm -> assumptions text ('Closed under the global context' when none)."""
        body = "From MoSql Require Import %s.\n" % module
        for t in thms:
            body += 'Print Assumptions %s.\n' % t
        ok, out = self.coq_eval("PA_" + module.replace(".", "_"), body, timeout=300)
        res = {}
        if not ok:
            return None, out
        # split output per theorem: each Print Assumptions prints either "Closed under the global context" or "Axioms:\n..."
        chunks = re.split(r"(?=Closed under the global context|Axioms:|Section Variables:)", out)
        chunks = [c.strip() for c in chunks if c.strip()]
        for t, c in zip(thms, chunks):
            res[t] = c
        return res, out

    def prove(self, module, thms, extra_targets=()):
        """Build Props module (and what it depends on); record one obligation per theorem; record assumptions."""
        target = module.replace(".", "/") + ".vo"
        ok, out = self.coq_make([target] + list(extra_targets))
        if not ok:
            self.log("coq build failed for", target)
            self.log(short(out[-3000:], 3000))
            for t in thms:
                self.obligation("theorem " + module + "." + t, False, "build failed")
            return False, out
        pa, paout = self.print_assumptions(module, thms)
        if pa is None:
            for t in thms:
                self.obligation("theorem " + module + "." + t, False, paout[-1500:])
            return False, paout
        allok = True
        for t in thms:
            a = pa.get(t)
            good = a is not None
            self.obligation("theorem " + module + "." + t, good, "no Print Assumptions output")
            allok = allok and good
            if a is not None:
                self.trusted.append("Print Assumptions %s.%s: %s" % (module, t, " ".join(a.split())))
        if self.tier == "thorough":
            # independent re-check of the compiled property module and everything it depends on (one coqchk at a time: it needs several GB)
            import fcntl
            with open(os.path.join(VERIF, ".coqchk.lock"), "w") as lk:
                fcntl.flock(lk, fcntl.LOCK_EX)
                rc, cout = sh(["timeout", "2400", "coqchk", "-silent", "-o", "-Q", COQ, "MoSql", "MoSql." + module], timeout=2500, cwd=COQ)
            m = re.search(r"\* Axioms:\s*(.*?)\n\s*\n", cout, re.S)
            axioms = " ".join(m.group(1).split()) if m else "?"
            good = rc == 0 and axioms == "<none>"
            self.obligation("coqchk -o MoSql.%s: modules re-checked, axioms %s" % (module, axioms), good, cout[-800:])
            self.checker_cmds.append("coqchk -silent -o -Q coq MoSql MoSql." + module)
            self.trusted.append("coqchk -o MoSql.%s: Axioms: %s" % (module, axioms))
            allok = allok and good
        return allok, out

    # ---- finishing
    def finish(self):
        wall = time.time() - self.t0
        nob = len(self.obligations)
        ndis = sum(1 for _, ok in self.obligations if ok)
        cov = dict(
            obligations=nob, discharged=ndis,
            checker_cmd="; ".join(dict.fromkeys(self.checker_cmds)) or "make -C coq",
            trusted_base=self.trusted,
            evaluations=self.evaluations, distinct_nontrivial=len(self.distinct),
            rule=self.rule, samples=self.samples[:12],
            traces_validated_against_impl=self.traces,
            obligation_list=[dict(name=n, ok=ok) for n, ok in self.obligations],
            known_findings_reproduced=sorted(self.known_hits),
        )
        cov.update(self.extra)
        ev = dict(property_id=self.pid, tier=self.tier, seed=self.seed, level="proof", coverage=cov,
                  assumptions=self.assumptions, wall_s=round(wall, 2), violations=len(self.violations),
                  notes=self.notes)
        with open(os.path.join(EVID, self.pid + ".json"), "w") as f:
            json.dump(ev, f, indent=1, default=repr)
        for key, text in sorted(self.known_hits.items()):
            print("KNOWN-FINDING: property=%s %s" % (self.pid, text), flush=True)
        for n in self.notes:
            print("NOTE:", n, flush=True)
        if self.violations:
            # violations that carry a failing input come first (a broken proof obligation or correspondence is reported after them)
            for path, no_input in sorted(self.violations, key=lambda v: v[1])[:10]:
                print("VIOLATION property=%s replay=%s%s" % (self.pid, path, " no-failing-input-found" if no_input else ""), flush=True)
            return 1
        if ndis != nob:
            # an obligation failed but nobody turned it into a violation: fail closed
            self.violation("obligation", dict(failed=[n for n, ok in self.obligations if not ok]), no_input=True)
            path, _ = self.violations[-1]
            print("VIOLATION property=%s replay=%s no-failing-input-found" % (self.pid, path), flush=True)
            return 1
        print("OK property=%s tier=%s obligations=%d evaluations=%d wall=%.1fs" % (self.pid, self.tier, nob, self.evaluations, wall), flush=True)
        return 0


def ensure_makefile():
    if not os.path.exists(COQ + "/Makefile"):
        with open(VERIF + "/.build.lock", "w") as lk:
            fcntl.flock(lk, fcntl.LOCK_EX)
            if not os.path.exists(COQ + "/Makefile"):
                sh("coq_makefile -f _CoqProject -o Makefile", cwd=COQ)


def write_if_changed(path, text):
    try:
        with open(path) as f:
            if f.read() == text:
                return False
    except FileNotFoundError:
        pass
    tmp = path + ".tmp%d" % os.getpid()
    with open(tmp, "w") as f:
        f.write(text)
    os.replace(tmp, path)
    return True


def parse_indices(out, tag):
    """Find a line '<tag> = [..]' style result printed by Eval vm_compute; returns list of ints."""
    m = re.search(re.escape(tag) + r"\s*=\s*\[(.*?)\]", out, re.S)
    if not m:
        return None
    body = m.group(1).strip()
    if not body:
        return []
    return [int(x.strip().replace("%nat", "").replace("%N", "")) for x in body.replace("\n", " ").split(";") if x.strip()]


def _probe_reproduces(impl, pr):
    """(reproduces?, what was seen)"""
    kind = pr["type"]
    fn = getattr(impl.M, pr.get("entry", "parse")) if kind != "format_gives" else None
    if kind in ("parse_gives", "rejects", "raises"):
        opts = dict(pr.get("options", {}))
        if opts.get("calls") == "normal_op":
            opts["calls"] = impl.M.normal_op
        st, got = impl.outcome(fn, pr["sql"], **opts)
        rep = (kind == "rejects" and st == "pe") or (kind == "raises" and st == "exc") or (kind == "parse_gives" and st == "ok" and canon(got) == canon(pr["bad"]))
        return rep, (got if st == "ok" else [st, str(got)])
    if kind == "not_accepted":
        # a text the property says is a valid input with a definite result: the finding reproduces while the call fails (either kind of exception)
        st, got = impl.outcome(fn, pr["sql"])
        return st != "ok", (got if st == "ok" else [st, str(got)])
    if kind == "roundtrip_fails":
        st, t = impl.outcome(fn, pr["sql"])
        st2, txt = impl.outcome(impl.M.format, t) if st == "ok" else ("skip", None)
        st3, back = impl.outcome(fn, txt) if st2 == "ok" else ("skip", None)
        return st == "ok" and (st2 != "ok" or st3 != "ok" or canon(back) != canon(t)), (txt if st2 == "ok" else [st2, str(txt)])
    if kind == "pair_differs":
        # two spellings that the property says mean the same: the finding reproduces while their outcomes differ
        st, t = impl.outcome(fn, pr["sql"])
        st2, t2 = impl.outcome(fn, pr["sql2"])
        return st == "ok" and (st2 != "ok" or canon(t) != canon(t2)), (t2 if st2 == "ok" else [st2, str(t2)])
    if kind == "tree_roundtrip_fails":
        st2, txt = impl.outcome(impl.M.format, pr["tree"], **pr.get("options", {}))
        st3, back = impl.outcome(fn, txt) if st2 == "ok" else ("skip", None)
        return st2 != "ok" or st3 != "ok" or canon(back) != canon(pr["tree"]), (txt if st2 == "ok" else [st2, str(txt)])
    if kind == "format_gives":
        st, txt = impl.outcome(impl.M.format, pr["tree"], **pr.get("options", {}))
        return st == "ok" and txt == pr["bad"], (txt if st == "ok" else [st, str(txt)])
    return False, "unknown probe type " + kind


def replay_probes(ctx):
    """findings that carry probes (witnesses that are not produced by the generators) are replayed on every run:
       the KNOWN-FINDING line is printed only while a witness still fails in the listed way"""
    import impl
    for f in load_findings().get("findings", []):
        probes = f.get("probes") or ([f["probe"]] if f.get("probe") else [])
        if f.get("property") != ctx.pid or not probes:
            continue
        hits, seen = 0, None
        for pr in probes:
            try:
                rep, seen = _probe_reproduces(impl, pr)
            except Exception as e:
                rep, seen = False, repr(e)
            hits += bool(rep)
        ctx.count(len(probes), ("probe", f["key"]))
        if hits:
            ctx.known(f["key"], "%s e.g. %s (%d of %d listed witnesses reproduce)" % (f["what"], f["witness"], hits, len(probes)))
        else:
            ctx.log("NOTE: listed finding %s no longer reproduces (now: %s)" % (f["key"], short(seen, 200)))
