# peg.py — the live grammar graphs as flat tables of nodes (the translator behind coq/Generated/Grammar.v), a reference interpreter of a table
# (the Python twin of coq/Model/Peg.v, same rules, same query log), a tracer of the real engine, and the lock-step relation between two tables.
import sys, re, json
import mo_parsing
from mo_parsing import exceptions
from mo_parsing.core import ParserElement
from mo_parsing.enhancement import (Many, ZeroOrMore, Optional, Forward, LookAhead, NotAny, Combine, ParseEnhancement)
from mo_parsing.expressions import And, Or, MatchFirst, MatchAll
from mo_parsing.tokens import Token
import impl

sys.setrecursionlimit(100000)
VETO = {"has_something": "nonempty", "bad_operator_on_ordered_sql": "always", "no_dashes": "nodash"}
RAISES = None      # names of parse actions in /repo whose body contains `raise ParseException` (computed from the source)
BIG = 1 << 20
SENSITIVE = '"[]`@'


def raising_actions():
    """every function of mo_sql_parsing whose body raises ParseException must be one of the modelled vetoes"""
    global RAISES
    if RAISES is None:
        import ast, glob
        RAISES = set()
        for f in glob.glob("/repo/mo_sql_parsing/*.py"):
            for fn in ast.walk(ast.parse(open(f).read())):
                if isinstance(fn, ast.FunctionDef):
                    for r in ast.walk(fn):
                        if isinstance(r, ast.Raise) and r.exc is not None and "ParseException" in ast.dump(r.exc):
                            RAISES.add(fn.name)
    return RAISES


def ws_class(ws):
    if ws.ignore_list:
        return "aware"
    if not ws.white_chars:
        return "none"
    return "plain"


def ws_sig(ws):
    return (ws.white_chars, tuple(str(i.__regex__()) for i in ws.ignore_list))


def term_sig(x):
    cls = type(x).__name__
    if cls == "Regex":
        return "Regex|%s/%s" % (x.regex.pattern, x.regex.flags)
    parts = [cls]
    pc = x.parser_config
    for f in ("match", "regex", "include", "exclude", "ident_chars", "init_chars", "body_chars", "min_len", "max_len"):
        v = getattr(pc, f, None)
        if v is not None:
            if isinstance(v, (set, frozenset)) or (isinstance(v, str) and f.endswith("chars")):
                v = "".join(sorted(v))
            parts.append("%s=%s/%s" % (f, getattr(v, "pattern", v), getattr(v, "flags", "")))
    if isinstance(x, NotAny):
        parts.append("not=" + x.regex.pattern)
    return "|".join(parts)


def deep_sig(x, d=0):
    cls = type(x).__name__
    own = "%s|%s|%s" % (cls, x.parser_name or "", str(x.token_name or ""))
    pc = getattr(x, "parser_config", None)
    for f in ("match", "regex"):
        v = getattr(pc, f, None)
        if v is not None:
            own += "|" + str(getattr(v, "pattern", v))
    if d >= 4:
        return own
    kids = list(getattr(x, "exprs", []) or [])
    e = getattr(x, "expr", None)
    if e is not None and not isinstance(e, str):
        kids.append(e)
    return own + "[" + ",".join(deep_sig(k, d + 1) for k in kids) + "]"


def first_literal(x):
    """the character every match of terminal x must begin with, or None when that is not evident from its definition"""
    cls = type(x).__name__
    pc = x.parser_config
    if cls in ("Literal", "SingleCharLiteral", "Keyword"):
        m = getattr(pc, "match", None)
        return m[0] if m else None
    if cls == "Regex":
        try:
            import re._parser as sre
        except ImportError:
            import sre_parse as sre
        try:
            p = sre.parse(x.regex.pattern, x.regex.flags)
        except Exception:
            return None
        if len(p) and str(p[0][0]) == "LITERAL":
            return chr(p[0][1])
    return None


class Registry:
    """terminal ids and whitespace ids shared by all tables: equal definition = equal id"""

    def __init__(self):
        self.terms, self.term_objs, self.ws, self.ws_objs = {}, [], {}, []

    def tid(self, x):
        s = term_sig(x)
        if s not in self.terms:
            self.terms[s] = len(self.term_objs)
            self.term_objs.append(x)
        return self.terms[s]

    def stop_tid(self, pattern):
        s = "Stop|" + pattern
        if s not in self.terms:
            self.terms[s] = len(self.term_objs)
            self.term_objs.append(re.compile(pattern))
        return self.terms[s]

    def wsid(self, ws):
        s = ws_sig(ws)
        if s not in self.ws:
            self.ws[s] = len(self.ws_objs)
            self.ws_objs.append(ws)
        return self.ws[s]

    def ws_classes(self):
        return [ws_class(w) for w in self.ws_objs]

    PROBES = ["", "x", " ", "1", "'", "(", "a b", "-", "a-b", "1e3", ",", "''", '"', "`", "[", "@", ".", "*"]

    def term_nullable(self):
        """per terminal: may it match the empty string?  Probed with the real objects on a few texts at every position; 'no' is a premise of
        C14_engine_total that is re-validated on every query the twin logs (Model.premise_bad)"""
        if getattr(self, "_nlt", None) is None or len(self._nlt) != len(self.term_objs):
            out = []
            for obj in self.term_objs:
                nul = False
                for s in self.PROBES:
                    for p in range(len(s) + 1):
                        try:
                            r = term_at(obj, s, p)
                        except Exception:
                            r = p
                        if r is not None and r == p:
                            nul = True
                            break
                    if nul:
                        break
                out.append(nul)
            self._nlt = out
        return self._nlt

    def dead_terms(self):
        return sorted(t for t, x in enumerate(self.term_objs) if not isinstance(x, re.Pattern) and (first_literal(x) or " ") in SENSITIVE)


class Table:
    """nodes[i] = dict(kind, kids, ...); els[i] is the real element of node i"""

    def __init__(self, parser, reg):
        self.reg = reg
        self.nodes, self.els, self.ids = [], [], {}
        self.root = self.add(parser.element)
        self.w0 = reg.wsid(parser.whitespace)

    def add(self, x):
        if id(x) in self.ids:
            return self.ids[id(x)]
        i = len(self.nodes)
        self.ids[id(x)] = i
        acts = [getattr(a, "__name__", "?") for a in x.parse_action]
        n = dict(cls=type(x).__name__, name=x.parser_name or "", token=str(x.token_name or ""), veto="none", transparent=bool(getattr(x, "transparent", False)), acts=acts)
        self.nodes.append(n)
        self.els.append(x)
        for a in acts:
            if a in VETO:
                n["veto"] = VETO[a]
            elif a in raising_actions():
                raise Exception("parse action %s raises ParseException and is not modelled" % a)
        reg = self.reg
        if type(x).__name__ == "Regex" or isinstance(x, Token) or (isinstance(x, NotAny) and x.regex):
            n.update(kind="term", t=reg.tid(x))
        elif isinstance(x, And):
            n.update(kind="seq", ws=reg.wsid(x.parser_config.whitespace), kids=[], lb=[])
            for e, lb, guard, fused in x.plain_plan:
                if guard:
                    continue
                n["kids"].append(self.add(e))
                n["lb"].append(bool(lb))
        elif isinstance(x, MatchFirst):
            n.update(kind="alt", kids=[self.add(e) for e in x.exprs])
        elif isinstance(x, Or):
            # the alternatives of the infix Or come out of a set(): canonical order (the longest match wins; the end position does not depend on the order)
            n.update(kind="or", kids=[self.add(e) for e in sorted(x.exprs, key=deep_sig)])
        elif isinstance(x, MatchAll):
            n.update(kind="all", ws=reg.wsid(x.parser_config.whitespace), kids=[self.add(e) for e in x.exprs],
                     mins=list(x.parser_config.min_match), maxs=[min(m, BIG) for m in x.parser_config.max_match])
        elif isinstance(x, Optional):
            n.update(kind="opt", kids=[self.add(x.expr)])
        elif isinstance(x, Many):
            pc = x.parser_config
            n.update(kind="many", ws=reg.wsid(pc.whitespace), kids=[self.add(x.expr)], min=pc.min_match, max=min(pc.max_match, BIG),
                     stop=reg.stop_tid(pc.end.pattern) if pc.end else None, zero=isinstance(x, ZeroOrMore))
        elif isinstance(x, NotAny):
            n.update(kind="not", kids=[self.add(x.expr)])
        elif isinstance(x, LookAhead):
            n.update(kind="look", kids=[self.add(x.expr)])
        elif isinstance(x, Combine):
            n.update(kind="raw", kids=[self.add(x.expr)])       # calls the child's parse_impl: the child's own actions do not run
        elif isinstance(x, Forward) or (isinstance(x, ParseEnhancement) and type(x).__name__ in ("Group", "Suppress", "Dict", "TokenConverter", "OpenDict")):
            n.update(kind="wrap", kids=[self.add(x.expr)])
        else:
            raise Exception("unmodelled element class " + type(x).__name__)
        return i

    def passes(self, n, k):
        """the engine hands the child's own result object up (so its type stays visible to an enclosing And)"""
        c = self.nodes[k]
        return bool(n["transparent"] and not c["token"] and c["cls"] != "Group")

    def coq_node(self, i):
        n = self.nodes[i]
        k = n["kind"]
        b = lambda x: "true" if x else "false"
        if k == "term":
            s = "NTerm %d" % n["t"]
        elif k == "seq":
            s = "NSeq %d [%s]" % (n["ws"], "; ".join("(%d, %s)" % (c, b(l)) for c, l in zip(n["kids"], n["lb"])))
        elif k == "alt":
            s = "NAlt [%s]" % "; ".join("(%d, %s)" % (c, b(self.passes(n, c))) for c in n["kids"])
        elif k == "or":
            s = "NOr [%s]" % "; ".join(map(str, n["kids"]))
        elif k == "opt":
            s = "NOpt %d" % n["kids"][0]
        elif k == "many":
            s = "NMany %d %d %d %d %s %s" % (n["ws"], n["kids"][0], n["min"], n["max"], "None" if n["stop"] is None else "(Some %d)" % n["stop"], b(n["zero"]))
        elif k == "wrap":
            s = "NWrap %s %d" % (b(n["cls"] == "Forward" and self.passes(n, n["kids"][0])), n["kids"][0])
        elif k == "raw":
            s = "NRaw %d" % n["kids"][0]
        elif k == "not":
            s = "NNot %d" % n["kids"][0]
        elif k == "look":
            s = "NLook %d" % n["kids"][0]
        elif k == "all":
            s = "NAll %d [%s]" % (n["ws"], "; ".join("(%d, (%d, %d))" % (c, mi, ma) for c, mi, ma in zip(n["kids"], n["mins"], n["maxs"])))
        return "%s (%s)" % ({"none": "e0", "always": "eA", "nonempty": "eN", "nodash": "eD"}[n["veto"]], s)

    def certificate(self):
        """(NL, NLR, RK): NL / NLR over-approximate "node i can match the empty string" when called with / without its own parse action (closed under the rules of Proofs/PegNull.v: entry_nl_ok),
        RK ranks the nodes so that every call a node can make at its own start position goes to a node of smaller rank (Proofs/PegFuel.v: node_rk_ok).
        Raises when the same-position call graph has a cycle (left recursion): no certificate exists then.  Coq re-checks the certificate (cert_ok)."""
        nlt = self.reg.term_nullable()
        N = self.nodes
        NL = [False] * len(N)          # called with the node's parse action in force
        NLR = [False] * len(N)         # called raw (Combine calls its child's parse_impl)

        def struct(i):
            n = N[i]
            k, kids = n["kind"], n.get("kids", [])
            if k == "term":
                return nlt[n["t"]]
            if k == "seq":
                return all(NL[c] for c in kids)
            if k in ("alt", "or"):
                return any(NL[c] for c in kids)
            if k in ("opt", "not", "look", "all"):
                return True
            if k == "many":
                return n["min"] == 0 or bool(n["zero"])
            if k == "raw":
                return NLR[kids[0]]
            return NL[kids[0]]

        changed = True
        while changed:
            changed = False
            for i, n in enumerate(N):
                if NL[i] and NLR[i]:
                    continue
                if struct(i):
                    if not NLR[i]:
                        NLR[i] = changed = True
                    if n["veto"] != "nonempty" and not NL[i]:
                        NL[i] = changed = True
        edges = []
        for i, n in enumerate(N):
            k, kids = n["kind"], n.get("kids", [])
            if k == "seq":
                e = []
                for c in kids:
                    e.append(c)
                    if not NL[c]:
                        break
                edges.append(e)
            else:
                edges.append([] if k == "term" else list(kids))
        RK = [None] * len(N)
        state = [0] * len(N)
        for root in range(len(N)):
            if state[root]:
                continue
            stack = [(root, 0)]
            state[root] = 1
            while stack:
                i, j = stack[-1]
                if j < len(edges[i]):
                    stack[-1] = (i, j + 1)
                    c = edges[i][j]
                    if state[c] == 1:
                        raise ValueError("same-position call cycle through nodes %d -> %d (%s)" % (i, c, N[c].get("name")))
                    if state[c] == 0:
                        state[c] = 1
                        stack.append((c, 0))
                else:
                    RK[i] = 1 + max([RK[c] for c in edges[i]], default=-1)
                    state[i] = 2
                    stack.pop()
        return NL, NLR, RK

    def coq(self, name):
        return "Definition %s : table := [\n %s\n]." % (name, ";\n ".join(self.coq_node(i) for i in range(len(self.nodes))))


class Abort(Exception):
    pass


class Model:
    """reference interpreter: the rules of coq/Model/Peg.v; terminals and whitespace skipping are answered by the real objects; every query is logged"""

    def __init__(self, table, string, ws_override=None):
        self.t, self.s, self.reg = table, string, table.reg
        self.ws_override = ws_override or {}        # counterfactual: answer the skips of one whitespace engine with another one
        self.memo = {}
        self.calls = 0
        self.log = set()
        self.sites = {}       # (w, pos) -> nodes that asked for that skip
        self.cur = None
        self.premise_bad = []     # answers of the real objects that break oracle_ok (Proofs/PegCert.v)

    # --- oracle
    def QS(self, w, pos):
        self.log.add(("S", w, pos))
        self.sites.setdefault((w, pos), set()).add(self.cur)
        r = self.reg.ws_objs[self.ws_override.get(w, w)].skip(self.s, pos)
        if not (pos <= r <= len(self.s)):
            self.premise_bad.append(("skip outside [pos, len]", w, pos, r))
        return r

    def QT(self, t, pos):
        self.log.add(("T", t, pos))
        r = term_at(self.reg.term_objs[t], self.s, pos)
        if r is not None:
            if not (pos <= r <= len(self.s)):
                self.premise_bad.append(("terminal match outside [pos, len]", t, pos, r))
            elif r == pos and not self.reg.term_nullable()[t]:
                self.premise_bad.append(("terminal marked non-empty matched the empty string", t, pos, r))
        return r

    def QD(self, a, b):
        self.log.add(("D", a, b))
        return "-" in self.s[a:b]

    def run(self, i, pos, raw=False):
        """-> None (fail) or (end, flag); raises Abort"""
        key = (i, pos, raw)
        if key in self.memo:
            r = self.memo[key]
            if r == "busy":
                raise Abort("left recursion")
            return r
        self.calls += 1
        if self.calls > 300000:
            raise Abort("budget")
        self.memo[key] = "busy"
        n = self.t.nodes[i]
        n["_i"] = i
        r = getattr(self, "k_" + n["kind"])(n, pos)
        if r is not None and not raw:
            v = n["veto"]
            if v == "always" or (v == "nonempty" and r[0] == pos) or (v == "nodash" and self.QD(pos, r[0])):
                r = None
        self.memo[key] = r
        return r

    def k_term(self, n, pos):
        e = self.QT(n["t"], pos)
        return None if e is None else (e, False)

    def k_seq(self, n, pos):
        end = index = pos
        for k, lb in zip(n["kids"], n["lb"]):
            if index < end:
                if not lb:
                    self.cur = n["_i"]
                index = end if lb else self.QS(n["ws"], end)
            r = self.run(k, index)
            if r is None:
                return None
            if index == r[0] and r[1]:
                continue
            end = r[0]
        return (end, False)

    def k_alt(self, n, pos):
        for k in n["kids"]:
            r = self.run(k, pos)
            if r is not None:
                return (r[0], self.t.passes(n, k) and r[1])
        return None

    def k_or(self, n, pos):
        best = None
        for k in n["kids"]:
            r = self.run(k, pos)
            if r is not None and (best is None or best < r[0]):
                best = r[0]
        return None if best is None else (best, False)

    def k_opt(self, n, pos):
        r = self.run(n["kids"][0], pos)
        if r is None:
            return (pos, True)
        return (r[0], r[0] == pos)       # a zero-width match carries no token: the result is an empty Many with min 0

    def k_many(self, n, pos):
        e, cnt, last = pos, 0, pos
        L = len(self.s)
        while e < L:
            self.cur = n["_i"]
            idx = self.QS(n["ws"], e)
            if n["stop"] is not None and self.QT(n["stop"], idx) is not None:
                break
            r = self.run(n["kids"][0], idx)
            if r is None:
                break
            if r[0] == e:
                raise Abort("many: an iteration that does not move (the engine would loop for ever)")
            e2 = r[0]
            if e2 == idx:
                e = e2
                continue
            e, cnt, last = e2, cnt + 1, e2
            if n["max"] <= cnt:
                break
        if cnt < n["min"] or n["max"] < cnt:
            return (pos, True) if n["zero"] else None
        if cnt:
            return (last, False)
        return (e, n["min"] == 0 and e == pos)

    def k_wrap(self, n, pos):
        r = self.run(n["kids"][0], pos)
        if r is None:
            return None
        return (r[0], n["cls"] == "Forward" and self.t.passes(n, n["kids"][0]) and r[1])

    def k_raw(self, n, pos):
        r = self.run(n["kids"][0], pos, raw=True)
        return None if r is None else (r[0], False)

    def k_not(self, n, pos):
        return (pos, False) if self.run(n["kids"][0], pos) is None else None

    def k_look(self, n, pos):
        return None if self.run(n["kids"][0], pos) is None else (pos, False)

    def k_all(self, n, pos):
        e = pos
        todo = [[k, mi, ma, 0] for k, mi, ma in zip(n["kids"], n["mins"], n["maxs"])]
        order = []
        while todo:
            for j, (k, mi, ma, c) in enumerate(todo):
                r = self.run(k, e)
                if r is None or r[0] == e:
                    continue
                self.cur = n["_i"]
                e = self.QS(n["ws"], r[0])
                if ma <= c + 1:
                    del todo[j]
                else:
                    todo[j][3] = c + 1
                order.append(k)
                break
            else:
                break
        if any(c < mi for k, mi, ma, c in todo):
            return None
        if any(k not in order and 0 < mi for k, mi in zip(n["kids"], n["mins"])):
            return None
        order = order + [k for k in n["kids"] if k not in order]
        if not order:
            return (pos, False)
        e = last = pos
        for k in order:
            r = self.run(k, e)
            if r is None:
                return None
            last = r[0]
            self.cur = n["_i"]
            e = self.QS(n["ws"], r[0])
        return (last, False)

    def parse_all(self):
        """-> ('ok', end) | ('fail',) | ('abort', why)"""
        try:
            self.cur = "parser"
            start = self.QS(self.t.w0, 0)
            r = self.run(self.t.root, start)
            if r is None:
                return ("fail",)
            self.cur = "parser"
            e = self.QS(self.t.w0, r[0])
            return ("ok", e) if e == len(self.s) else ("fail",)
        except Abort as a:
            return ("abort", str(a))
        except RecursionError:
            return ("abort", "recursion")


def term_at(obj, s, pos):
    if isinstance(obj, re.Pattern):
        m = obj.match(s, pos)
        return m.end() if m else None
    r = obj.parse_impl(s, pos)
    return None if r.failed else r.end


def oracle_tables(reg, s):
    """the oracle of one input as data: tm[pos] = [(tid, end)], sk[w] = [new position for every pos], dash positions"""
    L = len(s)
    tm = [[] for _ in range(L + 1)]
    for t, obj in enumerate(reg.term_objs):
        for p in range(L + 1):
            try:
                e = term_at(obj, s, p)
            except Exception:
                e = None
            if e is not None:
                tm[p].append((t, e))
    sk = [[w.skip(s, p) for p in range(L + 1)] for w in reg.ws_objs]
    dash = [i for i, c in enumerate(s) if c == "-"]
    return tm, sk, dash


class Tracer:
    """records every (element, start) -> end | None that the real engine evaluates; patching _parse also switches the engine to its interpreted path"""

    def __init__(self):
        self.calls = {}
        self.orig = ParserElement._parse

    def __enter__(self):
        orig, calls = self.orig, self.calls

        def traced(el, string, start, do_actions=True):
            r = orig(el, string, start, do_actions)
            calls[(id(el), start)] = None if r.failed else r.end
            return r
        ParserElement._parse = traced
        return self

    def __exit__(self, *a):
        ParserElement._parse = self.orig


PARSERS = ["common_parser", "mysql_parser", "sqlserver_parser", "bigquery_parser"]


def parser_for(name="common_parser", all_columns=None):
    impl.build_all()
    return impl.M.lookup_parsers[name][all_columns]


def all_tables(reg=None):
    reg = reg or Registry()
    return reg, {(n, a): Table(parser_for(n, a), reg) for n in PARSERS for a in (None, "*")}


def trace_engine(P, sql):
    with impl.M.parse_locker:
        with Tracer() as tr:
            try:
                P.parse_string(sql, parse_all=True)
                ok = True
            except Exception as e:
                ok = False
    return ok, tr.calls


def compare(table, P, sql, limit=5):
    """the model against the traced engine: whole-input verdict and every node evaluation the engine made"""
    ok, calls = trace_engine(P, sql)
    m = Model(table, sql)
    verdict = m.parse_all()
    out = []
    if (verdict[0] == "ok") != ok:
        out.append(("verdict", "engine", ok, "model", verdict))
    for (eid, start), end in calls.items():
        i = table.ids.get(eid)
        if i is None:
            continue
        try:
            r = m.run(i, start)
        except (Abort, RecursionError) as a:
            out.append(("abort", i, start, str(a)))
            break
        got = None if r is None else r[0]
        if got != end:
            out.append((i, table.nodes[i]["kind"], table.nodes[i]["cls"], str(table.els[i])[:60], start, "engine", end, "model", got))
            if len(out) >= limit:
                break
    return ok, len(calls), out, m


# ------------------------------------------------------------------------------------------------------------------
# the lock-step relation between two tables (input of Model/PegSim.v simb)
def node_shape(T, i):
    n = T.nodes[i]
    k = n["kind"]
    return (k, n.get("ws"), n.get("min"), n.get("max"), n.get("stop"), n.get("zero"), n["veto"], tuple(n.get("lb", ())), tuple(n.get("mins", ())), tuple(n.get("maxs", ())),
            (n["cls"] == "Forward") if k == "wrap" else None)


def syntactically_dead(T, i, dead_terms, depth=12):
    n = T.nodes[i]
    if depth == 0:
        return False
    k = n["kind"]
    if k == "term":
        return n["t"] in dead_terms
    if k == "seq":
        return bool(n["kids"]) and syntactically_dead(T, n["kids"][0], dead_terms, depth - 1)
    if k in ("wrap", "raw", "look"):
        return syntactically_dead(T, n["kids"][0], dead_terms, depth - 1)
    if k == "alt":
        return all(syntactically_dead(T, c, dead_terms, depth - 1) for c in n["kids"])
    return False


def relate(T1, T2, dead_terms):
    """-> (R pairs, EQN pairs of leaf nodes that differ, problems)"""
    R, eqn, problems = [], [], []
    seen = set()
    stack = [(T1.root, T2.root)]
    dead1 = lambda i: syntactically_dead(T1, i, dead_terms)
    dead2 = lambda j: syntactically_dead(T2, j, dead_terms)
    while stack:
        i, j = stack.pop()
        if (i, j) in seen:
            continue
        seen.add((i, j))
        R.append((i, j))
        a, b = T1.nodes[i], T2.nodes[j]
        if a["kind"] == "term" and b["kind"] == "term":
            if a["t"] != b["t"] or a["veto"] != b["veto"]:
                eqn.append((i, j))
            continue
        if a["kind"] == "alt" and (b["kind"] != "alt" or node_shape(T1, i) != node_shape(T2, j)):
            live = [c for c in a["kids"] if not dead1(c)]
            if len(live) == 1 and a["veto"] == "none":
                stack.append((live[0], j))
                continue
        if node_shape(T1, i) != node_shape(T2, j):
            problems.append(("shape", i, j, a["kind"], a["name"], b["kind"], b["name"]))
            continue
        ka, kb = list(a.get("kids", [])), list(b.get("kids", []))
        if a["kind"] == "alt":
            x = y = 0
            while x < len(ka) or y < len(kb):
                if x < len(ka) and dead1(ka[x]):
                    x += 1
                elif y < len(kb) and dead2(kb[y]):
                    y += 1
                elif x < len(ka) and y < len(kb):
                    if T1.passes(a, ka[x]) != T2.passes(b, kb[y]):
                        problems.append(("pass", i, j))
                    stack.append((ka[x], kb[y]))
                    x += 1
                    y += 1
                else:
                    problems.append(("alternatives", i, j, a["name"], [T1.nodes[c]["name"] or T1.nodes[c]["kind"] for c in ka], [T2.nodes[c]["name"] or T2.nodes[c]["kind"] for c in kb]))
                    break
            continue
        if len(ka) != len(kb):
            problems.append(("children", i, j, a["kind"], a["name"], len(ka), len(kb)))
            continue
        if a["kind"] == "wrap" and (a["cls"] == "Forward" and T1.passes(a, ka[0])) != (b["cls"] == "Forward" and T2.passes(b, kb[0])):
            problems.append(("pass", i, j))
        stack.extend(zip(ka, kb))
    return sorted(R), sorted(eqn), problems
