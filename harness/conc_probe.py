# Run in a fresh interpreter.  argv[1] = JSON: {"mode": "stress"|"replay", ...}.  Prints one JSON object.
import sys, json, threading, warnings, random, time
warnings.filterwarnings("ignore")
sys.path.insert(0, "/repo")
import mo_sql_parsing as M
from mo_parsing import ParseException
cfg = json.loads(sys.stdin.read())


def run(c):
    fn, arg, kw = c
    kw = dict(kw)
    if kw.get("calls") == "normal_op":
        kw["calls"] = M.normal_op
    if kw.get("should_quote") == "always":
        kw["should_quote"] = lambda s: True
    if kw.get("should_quote") == "never":
        kw["should_quote"] = lambda s: False
    try:
        r = getattr(M, fn)(arg, **kw)
        return ["ok", json.loads(json.dumps(r, default=lambda o: "<<%s>>" % type(o).__name__))]
    except ParseException as e:
        return ["pe", getattr(e, "start", None)]
    except Exception as e:
        return ["exc", type(e).__name__]


if cfg["mode"] == "stress":
    sys.setswitchinterval(1e-6)
    seqs = cfg["seqs"]          # one list of calls per thread
    if cfg.get("warm"):
        for n in M.lookup_parsers:
            for a in (None, "*"):
                M._get_or_create_parser(n, a)
        M.format({"select": {"value": "a b"}})
    out = [[None] * len(s) for s in seqs]
    bar = threading.Barrier(len(seqs))

    def work(i):
        bar.wait()
        for j, c in enumerate(seqs[i]):
            out[i][j] = run(c)

    ts = [threading.Thread(target=work, args=(i,), daemon=True) for i in range(len(seqs))]
    [t.start() for t in ts]
    deadline = time.time() + cfg.get("timeout", 120)
    for t in ts:
        t.join(max(0.1, deadline - time.time()))
    print(json.dumps(dict(out=out, alive=[t.is_alive() for t in ts])))
else:
    # deterministic schedule: the intruder runs a whole call between the victim's grammar match and its scrub
    for n in M.lookup_parsers:
        for a in (None, "*"):
            M._get_or_create_parser(n, a)
    victim_matched = threading.Event()
    intruder_done = threading.Event()

    class Proxy:
        def __init__(self, inner):
            self.inner = inner

        def parse_string(self, *a, **k):
            r = self.inner.parse_string(*a, **k)
            if threading.current_thread().name == "victim" and cfg.get("point", "match") == "match":
                victim_matched.set()
                intruder_done.wait(timeout=cfg.get("wait", 0.25))   # with the lock held the intruder cannot finish: schedule infeasible
            return r

    for n in M.lookup_parsers:
        for a in (None, "*"):
            M.lookup_parsers[n][a] = Proxy(M.lookup_parsers[n][a])
    if cfg.get("point") == "scrub":
        # second schedule: the intruder runs a whole call between the victim's scrub and its NULL substitution
        inner_scrub = M.scrub

        def scrub_proxy(*a, **k):
            r = inner_scrub(*a, **k)
            if threading.current_thread().name == "victim" and cfg.get("inside"):
                victim_matched.set()
                intruder_done.wait(timeout=cfg.get("wait", 0.25))
            return r

        M.scrub = scrub_proxy

        # ... and (wherever the lock ends) right before the victim reads the recorded NULL slots for its substitution loop
        class ModProxy:
            def __init__(self, inner):
                object.__setattr__(self, "_inner", inner)

            def __getattr__(self, name):
                if name == "null_locations" and threading.current_thread().name == "victim" and not victim_matched.is_set():
                    victim_matched.set()
                    intruder_done.wait(timeout=cfg.get("wait", 0.25))
                return getattr(object.__getattribute__(self, "_inner"), name)

            def __setattr__(self, name, value):
                setattr(object.__getattribute__(self, "_inner"), name, value)

        M._utils = ModProxy(M._utils)
    res = {}

    def victim():
        res["victim"] = run(cfg["victim"])

    def intruder():
        victim_matched.wait(timeout=5.0)
        res["intruder"] = run(cfg["intruder"])
        intruder_done.set()

    tv = threading.Thread(target=victim, name="victim", daemon=True)
    ti = threading.Thread(target=intruder, name="intruder", daemon=True)
    tv.start(); ti.start(); tv.join(20); ti.join(20)
    print(json.dumps(dict(res=res, alive=[tv.is_alive(), ti.is_alive()])))
