# lexer.py — an independent SQL lexer: tokens, and the whitespace / comment runs between them (C09, C18)
import re

TOKEN = re.compile(r"""
  (?P<ws>\s+)
 |(?P<cmt>--[^\n]*|\#[^\n]*|/\*.*?\*/)
 |(?P<str>(?:[rRnN]|_utf8mb4|_utf8|_latin1|_ascii|_ucs2|_binary)?'(?:''|[^'])*')
 |(?P<dq>"(?:""|[^"])*")
 |(?P<bt>`(?:``|[^`])*`)
 |(?P<num>\d+\.\d*(?:[eE][+-]?\d+)?|\.\d+(?:[eE][+-]?\d+)?|\d+(?:[eE][+-]?\d+)?)
 |(?P<word>[^\W\d][\w$@]*|[$@][\w$@]*)
 |(?P<op><=>|<>|!=|<=|>=|==|\|\||::|->>|->|\#>>|\#>|@>|<@|<<|>>|!~\*|!~|~\*|:=|.)
""", re.X | re.S)


def lex(sql):
    """-> list of (kind, text); concatenating the texts gives sql back"""
    out, pos = [], 0
    while pos < len(sql):
        m = TOKEN.match(sql, pos)
        out.append((m.lastgroup, m.group(0)))
        pos = m.end()
    return out


def split_gaps(sql):
    """-> (tokens [(kind, text)], gaps [text before token i], trailing): gaps[i] is the whitespace/comment run in front of token i ('' when glued)"""
    toks, gaps, cur = [], [], ""
    for kind, text in lex(sql):
        if kind in ("ws", "cmt"):
            cur += text
        else:
            toks.append((kind, text))
            gaps.append(cur)
            cur = ""
    return toks, gaps, cur


def join(toks, gaps, trailing=""):
    return "".join(g + t[1] for g, t in zip(gaps, toks)) + trailing
