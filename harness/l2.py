# L2 correspondence: raw parse results captured from the implementation, scrubbed by the Coq model (Model/Scrub.v)
# and by the implementation; shared by C08, C11, C12 (and C17 for provenance).
import json, sys
from common import *
import impl
from impl import M

U = None


def nullable(x, memo):
    """mirror of 'scrub(x) is None' used only to decide whether list(result) must be dumped"""
    k = id(x)
    if k in memo:
        return memo[k]
    memo[k] = False
    if x is None:
        r = True
    elif isinstance(x, impl.ParseResults):
        if not bool(x):
            r = True
        else:
            r = all(all(nullable(v, memo) for v in vs) for _, vs in x.items()) and all(nullable(v, memo) for v in x)
    elif type(x) in (list, tuple):
        r = all(nullable(v, memo) for v in x)
    else:
        r = False
    memo[k] = r
    return r


class Outside(Exception):
    pass


FLAT_ATOMS = False


def leaf_atoms(x, acc, depth=0):
    """the strings and numbers held anywhere inside a raw value, dictionary keys included (result names of a ParseResults are not)"""
    if depth > 300 or x is None or x is True or x is False or x is U.SQL_NULL:
        return acc
    if isinstance(x, (str, int, float)):
        acc.append(x)
    elif isinstance(x, bytes):
        acc.append(x.decode("utf8"))
    elif isinstance(x, U.Call):
        leaf_atoms(x.args, acc, depth + 1)
        for k, v in (x.kwargs or {}).items():
            acc.append(str(k))
            leaf_atoms(v, acc, depth + 1)
    elif isinstance(x, impl.ParseResults):
        for v in x:
            leaf_atoms(v, acc, depth + 1)
    elif isinstance(x, dict):
        for k, v in x.items():
            acc.append(str(k))
            leaf_atoms(v, acc, depth + 1)
    elif isinstance(x, (list, tuple)):
        for v in x:
            leaf_atoms(v, acc, depth + 1)
    return acc


def dump(x, memo, depth=0):
    """raw parse result -> Coq term of type raw; raises Outside when the value is not in the modelled universe"""
    if depth > 300:
        raise Outside("depth")
    if x is U.SQL_NULL:
        return "RMark"
    if x is None:
        return "RNone"
    if x is True or x is False:
        return "(RBool %s)" % cbool(x)
    if isinstance(x, int):
        return "(RInt %s)" % cz(x)
    if isinstance(x, float):
        return "(RFloat %s)" % cstr(repr(x))
    if isinstance(x, str):
        return "(RStr %s)" % cstr(x)
    if isinstance(x, bytes):
        return "(RStr %s)" % cstr(x.decode("utf8"))
    if isinstance(x, U.Call):
        if type(x.kwargs) is not dict:
            raise Outside("Call.kwargs:" + type(x.kwargs).__name__)
        if not isinstance(x.op, str):
            raise Outside("Call.op:" + type(x.op).__name__)
        return "(RCall %s %s %s)" % (cstr(x.op), dump(x.args, memo, depth + 1), dump_kvs(x.kwargs, memo, depth))
    if isinstance(x, impl.ParseResults):
        if not bool(x):
            return "(RPR false [] [])"
        items = list(x.items())
        named = clist([cpair(cstr(k), clist([dump(v, memo, depth + 1) for v in vs])) for k, vs in items])
        if all(all(nullable(v, memo) for v in vs) for _, vs in items):
            flat = clist([dump(v, memo, depth + 1) for v in x])
        elif FLAT_ATOMS:
            # scrub will not look at the flat tokens here (a named one surely survives): they enter the model as the atoms they hold,
            # which is all that Model/ScrubAtoms.v (ratoms / hidden) asks of them
            acc = []
            for v in x:
                leaf_atoms(v, acc)
            flat = clist([("(RStr %s)" % cstr(a)) if isinstance(a, str) else ("(RInt %s)" % cz(a)) if isinstance(a, int) else ("(RFloat %s)" % cstr(repr(a))) for a in dict.fromkeys(acc)])
        else:
            flat = "[]"
        return "(RPR true %s %s)" % (named, flat)
    if type(x) is dict:
        return "(RDict %s)" % dump_kvs(x, memo, depth)
    if type(x) in (list, tuple):
        return "(RList %s)" % clist([dump(v, memo, depth + 1) for v in x])
    raise Outside(type(x).__name__)


def dump_kvs(d, memo, depth):
    for k in d:
        if not isinstance(k, str):
            raise Outside("key:" + type(k).__name__)
    return clist([cpair(cstr(k), dump(v, memo, depth + 1)) for k, v in d.items()])


def record_op(op, args, kwargs):
    out = {"call": op}
    if args is not None:
        out["a"] = args
    if kwargs:
        out["k"] = kwargs
    return out


MODES = {"simple": (None, "MSimple"), "normal": (M.normal_op, "MNormal"), "record": (record_op, "MRecord")}
DEFAULT_NULL = object()
NULLS = [("default", DEFAULT_NULL), ("none", None), ("zero", 0), ("str", "NULL"), ("dict", {"null": {}}), ("nest", {"n": [1, {"m": None}]})]


def is_plain(x):
    if x is None or isinstance(x, (bool, int, float, str)):
        return True
    if type(x) is list:
        return all(is_plain(v) for v in x)
    if type(x) is dict:
        return all(isinstance(k, str) and is_plain(v) for k, v in x.items())
    return False


def run_case(parser, sql, mode, nullname, fmap, all_columns=None):
    """run the implementation once, capturing the raw result given to scrub and scrub's (substituted) output.
    returns dict(status=..., raw=<Coq term>, out=<python value>, result=<what parse returned>)"""
    global U
    U = impl.build_all()
    calls, _ = MODES[mode]
    null = dict(NULLS)[nullname]
    kw = dict(calls=calls, all_columns=all_columns)
    if null is not DEFAULT_NULL:
        kw["null"] = null
    f = impl.ENTRY[parser]
    if fmap:
        if parser == "common_parser":
            kw["fmap"] = fmap
        else:
            kw["is_null"] = fmap  # the dialect entry points pass this argument on as fmap
    captured = []
    real = M.scrub

    def wrapped(r):
        out = real(r)
        captured.append((r, out))
        return out

    M.scrub = wrapped
    try:
        st, val = impl.outcome(f, sql, **kw)
    finally:
        M.scrub = real
    return st, val, captured, (null if null is not DEFAULT_NULL else {"null": {}})


def coq_case(mode, fmap, xnull, rawterm, out):
    """one Coq tuple; out is the implementation's scrub output after substitution (python) or the string 'LEAK'"""
    fm = clist([cpair(cstr(a), cstr(b)) for a, b in (fmap or {}).items()])
    if out is None:
        exp = "None"
    else:
        exp = "(Some %s)" % cjson(out, mark=U.SQL_NULL)
    return "(%s, %s, %s, %s, %s)" % (MODES[mode][1], fm, cjson(xnull), rawterm, exp)


HEADER = """From Coq Require Import List ZArith String Bool.
From MoSql Require Import Base.Json Model.Scrub Proofs.Slots Proofs.Calls.
Import ListNotations.
Open Scope string_scope. Open Scope list_scope.
Definition case := (mode * fmap_t * jv * raw * option jv)%type.
Definition check (c : case) : bool :=
  let '(m, fm, x, r, e) := c in
  match parse_result m fm x r, e with
  | Some v, Some w => jv_eqb v w
  | None, None => true
  | _, _ => false
  end.
Definition premise_good (c : case) : bool := let '(m, fm, x, r, e) := c in goodb m fm r.
Definition premise_nofake (c : case) : bool := let '(m, fm, x, r, e) := c in nofakeb fm r && nofakeb_n fm r.
Fixpoint failing (f : case -> bool) (i : nat) (l : list case) : list nat :=
  match l with [] => [] | c :: t => (if f c then [] else [i]) ++ failing f (S i) t end.
"""


def run_model(ctx, name, cases, shard=200):
    """cases: list of Coq tuples.  Returns dict(mismatch=[..], ungood=[..], fake=[..]) of global indices, or (None, log)."""
    import concurrent.futures as cf
    shards = [cases[i:i + shard] for i in range(0, len(cases), shard)]

    def one(i):
        body = HEADER + "Definition cases : list case := [\n" + ";\n".join(shards[i]) + "\n].\n"
        body += "Definition MISMATCH := failing check 0 cases.\nEval vm_compute in MISMATCH.\n"
        body += "Definition UNGOOD := failing premise_good 0 cases.\nEval vm_compute in UNGOOD.\n"
        body += "Definition FAKE := failing premise_nofake 0 cases.\nEval vm_compute in FAKE.\n"
        ok, out = ctx.coq_eval("%s_%d" % (name, i), body)
        if not ok:
            return i, None, out
        parts = re.findall(r"=\s*\[(.*?)\]\s*:\s*list nat", out, re.S)
        if len(parts) != 3:
            return i, None, out
        res = []
        for b in parts:
            b = b.strip()
            res.append([int(x) for x in b.replace("\n", " ").split(";") if x.strip()] if b else [])
        return i, res, out

    acc = dict(mismatch=[], ungood=[], fake=[])
    with cf.ThreadPoolExecutor(max_workers=min(NCPU, 12)) as ex:
        for i, res, out in ex.map(one, range(len(shards))):
            if res is None:
                return None, out
            for key, idx in zip(("mismatch", "ungood", "fake"), res):
                acc[key].extend(i * shard + j for j in idx)
    ctx.checker_cmds.append("coqc -Q coq MoSql <generated case files> (Eval vm_compute)")
    return acc, ""


def simplified_violation(x, normal=False, path="$"):
    """returns a description of the first deviation from plain, simplified JSON, or None"""
    if x is None:
        return path + ": None"
    if isinstance(x, float):
        if x != x or x in (float("inf"), float("-inf")):
            return path + ": non-finite float"
        return None
    if isinstance(x, (bool, int, str)):
        return None
    if type(x) is list:
        if len(x) == 0:
            return path + ": empty list"
        if len(x) == 1:
            return path + ": one-element list"
        for i, v in enumerate(x):
            r = simplified_violation(v, normal, "%s[%d]" % (path, i))
            if r:
                return r
        return None
    if type(x) is dict:
        isnode = normal and "op" in x and set(x) <= {"op", "args", "kwargs"}
        for k, v in x.items():
            if not isinstance(k, str):
                return path + ": non-string key"
            if isnode and k == "args" and type(v) is list and len(v) >= 1:
                for i, w in enumerate(v):
                    r = simplified_violation(w, normal, "%s.args[%d]" % (path, i))
                    if r:
                        return r
                continue
            r = simplified_violation(v, normal, path + "." + k)
            if r:
                return r
        return None
    return path + ": internal object " + type(x).__name__


def statements(ctx, ngen):
    """(parser, sql) pairs: the captured test corpus plus generated statements"""
    import gens
    out = [(c["parser"], c["sql"]) for c in impl.corpus()]
    rnd = ctx.rng("stmts")
    out += [("common_parser", s) for s in gens.statements(rnd, ngen)]
    out += [(p, s) for p in ("mysql_parser", "sqlserver_parser", "bigquery_parser") for s in gens.statements(rnd, max(5, ngen // 20))]
    # scripts that the DELIMITER pre-pass cuts into several chunks (each chunk is parsed and scrubbed on its own), with NULLs and calls in every chunk
    chunks = ["update t set a = null where b = 1", "select f(null), g(a, null) from t", "select a from t where b in (1, null, 3)", "insert into t (a, b) values (1, null)",
              "select coalesce(a, null) as x from t", "select a from t"]
    for d in ("$$", "//"):
        for _ in range(max(4, ngen // 60)):
            k = rnd.randint(2, 4)
            body = "".join("%s%s\n" % (rnd.choice(chunks), d) for _ in range(k))
            out.append((rnd.choice(["common_parser", "mysql_parser"]), "DELIMITER %s\n%sDELIMITER ;" % (d, body)))
            out.append(("common_parser", "select null as z;\nDELIMITER %s\n%s" % (d, body)))
    return out
