# One-off curation tool (run by hand, never by a check): turns the reviewed reports of the bug-hunting agents (hunts/hunt_C*.py)
# into known-findings entries that carry replayable probes.  Every probe is executed against /repo here and kept only if it
# reproduces; the output is merged into known_findings.json by hand-run (`python3 harness/curate_hunts.py --write`).
import json, os, re, sys
sys.path.insert(0, os.path.dirname(os.path.abspath(__file__)))
import common, impl
from common import canon

G, R, X, RT, PD, TR, NA = "parse_gives", "rejects", "raises", "roundtrip_fails", "pair_differs", "tree_roundtrip_fails", "not_accepted"

# (property, key, what, [(kind, {args})...])
L = []


def add(pid, key, what, *probes):
    L.append((pid, pid + ":" + key, what, list(probes)))


def g(sql, entry="parse", **options):
    return (G, dict(sql=sql, entry=entry, **({"options": options} if options else {})))


def rt(sql, entry="parse"):
    return (RT, dict(sql=sql, entry=entry))


def pd(sql, sql2, entry="parse"):
    return (PD, dict(sql=sql, sql2=sql2, entry=entry))


# ---- C01
add("C01", "regexp-binds-loosest", "REGEXP / NOT REGEXP form the last entry of KNOWN_OPS, after OR and assignment, so they bind loosest of all (SQLite: same level as LIKE)",
    g("select a = 1 and s regexp '^x' from t"), g("select not s regexp 'x' from t"))
add("C01", "parentheses-defeat-literal-folding", "the NULL-comparison and signed-number foldings of to_json_operator look at raw tokens: redundant parentheses round the NULL or the number give another tree",
    pd("select a = null from t", "select a = (null) from t"), pd("select -1 from t", "select -(1) from t"))
add("C01", "call-named-like-operator-flattened", "a function call whose name is an operator name (concat, add, and) is merged into the operator chain next to it",
    g("select concat(a, b) || c from t"), g("select add(a, b) + c from t"))
# ---- C02
add("C02", "nested-join-flattened", "a join nested by its ON clauses (t LEFT JOIN u JOIN v ON .. ON ..) is returned as the flat left-to-right chain: the written grouping is lost",
    pd("select a from t left join (u join v on u.x=v.x) on t.x=u.x", "select a from t left join u join v on u.x=v.x on t.x=u.x"))
add("C02", "comma-after-join", "a comma written after an explicit JOIN is turned into a cross join and regrouped with the joins that follow",
    g("select a from t join u on t.x=u.x, v right join w on v.y=w.y"))
add("C02", "distinct-star", "star forms under SELECT DISTINCT are shaped differently from the same list under plain SELECT",
    g("select distinct t.* from t"), g("select distinct *, a from t"))
add("C02", "select-all", "SELECT ALL is not known to the grammar: ALL becomes a column and the first item its alias",
    g("select all a, b from t"))
add("C02", "distinct-top", "TOP is only accepted directly after SELECT: SELECT DISTINCT TOP (n) reads top as a function call",
    g("select distinct top (5) a from t"))
add("C02", "exists-parenthesised-setop", "the argument of EXISTS / ANY / ALL is tried as an expression list first: a set operation whose first operand is parenthesised is mis-read or rejected",
    (R, dict(sql="select a from t where exists ((select 1) union (select 2))")), g("select a from t where exists ((select 1) union (select 2))"),
    g("select a from t where exists ((select b from u) order by b limit 1)"))
# ---- C05
add("C05", "insert-columns-rows-mismatch", "INSERT with a column list and literal rows of another length: the rows are zipped with the columns and the surplus column or value is dropped",
    g("insert into xt1 (xa2, xb3, xc6) values (5, 6), (7, 8)"), g("insert into xt1 (xa2) values (5, 'xs4'), (7, 'xs5')"))
add("C05", "index-trailing-options", "words after the column list of CREATE INDEX are accepted as options and not recorded",
    g("create index xi1 on xt2 (xa3) xo5 xo6"))
add("C05", "frame-start-after-end", "a window frame whose start lies after its end (n FOLLOWING AND m PRECEDING): _to_between_call picks the wrong side and drops a bound",
    g("select sum(xa1) over (order by xo3 rows between 51 following and 72 preceding) from xt2"))
add("C05", "array-type-with-charset", "ARRAY<type CHARACTER SET x>[..]: to_flat_column_type returns a dict and the type of the array is lost",
    g("select array<varchar(5) character set xc3>[xa1] from xt4"))
add("C05", "duplicate-named-argument", "two named arguments with one name: the later value replaces the earlier one",
    g("select xf1(xk1 => xa2, xk1 => xa4) from xt3"))
add("C05", "case-without-when", "CASE x ELSE y END (no WHEN arm) is accepted and x dropped",
    g("select case xa1 else xb2 end from xt4"))
add("C05", "struct-field-name", "STRUCT(expr AS name, ...) with a non-atomic expression: _simpler_struct_value keeps v[0] and the field name is dropped",
    g("select struct(xa1 + xb2 as xk3, xc4 as xj5) from xt6"))
# ---- C06
add("C06", "delimiter-line-in-literal", "a line that starts with the word delimiter inside a string literal is taken by the DELIMITER pre-pass, which runs on the raw text: the statement is rejected",
    (R, dict(sql="select 'fields:\ndelimiter is comma'")))
add("C06", "plus-before-minus", "+-<number>: the unary plus takes the minus token as its operand and the number is lost",
    g("select +-1"), g("select a from t where x = +-2"))
add("C06", "substring-literal-operand", "format of SUBSTRING(.. FROM .. FOR ..) and COLLATE interpolates operands without dispatch: a string literal operand is printed as a Python dict",
    rt("select substring('it''s' from 1 for 2)"), rt("select x collate 'utf8' from t"))
# ---- C07
add("C07", "unquoted-name-sites", "format pastes the name bare (no escape) as PIVOT alias, COLLATE operand and SUBSTRING operand",
    rt('select * from t pivot (sum(x) for y in (1, 2)) as "p q"'), rt('select x collate "a b" from t'), rt('select substring("a b" from 1 for 2) from t'))
add("C07", "alias-with-column-list", "an alias that carries a column list ({name: {alias: [cols]}}) is printed through op(): upper-cased like a function and never quoted; in WITH the dict is interpolated as text",
    rt("select x from (values (1, 2)) as v (a, b)"), rt('select x from t as "a b" (c, d)'), rt("with w (c, d) as (select 1, 2) select c from w"))
# ---- C08
add("C08", "float-infinity", "a real literal beyond the binary64 range parses to infinity, which JSON cannot hold (real_num / real_pos call float() unchecked)",
    g("select 1.5e400"), g("select a from t limit 1.0e999"))
add("C08", "empty-block-none", "an accepted statement with nothing in it (BEGIN END) returns None although null=None was not requested",
    g("begin end"))
# ---- C11
add("C11", "function-named-null", "a zero-argument call of a function named null is written {'null': {}} by simple_op, exactly like the NULL keyword, and is not a recorded slot: null=X leaves it",
    g('select "null"(), null', null=0))
# ---- C12
add("C12", "frame-bound-simplified-early", "window frame bounds are simplified while the grammar is still matching and again at the end: under normal_op the args list of a sole-argument call inside a bound is unwrapped, and the negation is a hand-written {'neg': ..}",
    g("select sum(a) over (order by b range f(x) preceding) from t", calls="normal_op"))
add("C12", "hand-written-operator-dicts", "some parse actions return a literal {op: args} dict instead of a Call: the node is not written in normal form and fmap does not rename it (2x, MERGE ... THEN DELETE)",
    g("select 2x from t", calls="normal_op"), g("merge into t using u on t.a = u.a when matched then delete", calls="normal_op"))
add("C12", "keyword-argument-named-like-operation", "simple_op writes kwargs[op] = args: a keyword argument whose name is the operation's name is overwritten (normal_op keeps it)",
    g("select f(x, f => 1) from t"))
# ---- C14
add("C14", "parse-action-crashes", "parse actions that raise something other than ParseException on a shape they do not expect: to_pivot_column rolls back the end of the match, an r'..' string where only 'literal' is read, EXPLAIN INTO with a stage",
    (X, dict(sql="SELECT a FROM t PIVOT ((a) FOR b IN (1))")), (X, dict(sql="SELECT a FROM t UNPIVOT (a FOR b IN (c AS r'x'))")), (X, dict(sql="explain into x @y select 1")))
add("C14", "deep-nesting-recursion-error", "valid SQL nested about 20 deep through INTERVAL ( sub-query ) exhausts the interpreter's stack: RecursionError instead of a tree or ParseException",
    (X, dict(sql="select " + "interval (select " * 20 + "a" + ") day" * 20)))
add("C14", "optional-mandatory-parts", "mandatory parts that the grammar makes optional: CASE without WHEN, FOREIGN KEY without a body, ALTER TABLE ADD with nothing, MERGE without WHEN, COUNT(DISTINCT), a DELIMITER directive of blanks",
    g("select case end from t"), g("create table t (a int, foreign key)"), g("alter table t add"), g("merge into t using s on a = b"), g("select count(distinct) from t"))
# ---- C19
add("C19", "charset-type-reshapes-options", "a column whose type carries CHARACTER SET is rebuilt by to_flat_column_type: nested options of the same column come out in another shape than on a column without it",
    g("create table t (a varchar(9) character set utf8 generated always as identity, b varchar(9) generated always as identity)"))
add("C19", "multi-row-values-lose-encoding", "get_literal keeps only the text of a literal: in a multi-row VALUES list the N / _charset prefix of a string is dropped (the one-row form keeps it)",
    g("insert into t (a, b) values (_utf8'x', 1), (N'y', 2)"))
add("C19", "column-name-zipped-by-character", "INSERT with ONE column and rows of several values: zip(columns, row) iterates the characters of the column name",
    g("insert into t (ab) values (1, 2), (3, 4)"))
add("C19", "column-named-key-or-index", "a column named key / index with an array(..) / map(..) type is read as an index constraint",
    g("create table t (a int, key map(int, varchar(3)))"))
# ---- C20
add("C20", "frame-unit-not-recorded", "ROWS and RANGE are both suppressed by the grammar and format always prints ROWS: a RANGE frame comes back as a ROWS frame (and a fractional RANGE offset does not parse back)",
    rt("select sum(x) over (order by y range between 1.5 preceding and 2.5 following) from t"))
# ---- C13
add("C13", "empty-compound-statement", "an empty compound statement (BEGIN END, LOOP END LOOP) scrubs to nothing and vanishes from the list of statements",
    g("select 1; begin end; select 2"), g("begin end; select 2"))
add("C13", "delimiter-word-at-line-start", "the DELIMITER pre-pass is a line regex on the raw text: a line that starts with the word delimiter inside a statement, a string literal or a comment is taken as a directive",
    (NA, dict(sql="create table t (\n  delimiter varchar(1),\n  q int\n)")), (NA, dict(sql="select 'x\ndelimiter //\n'; select 2")), (NA, dict(sql="select 1 /*\ndelimiter //\n*/; select 2")))
add("C13", "custom-delimiter-only-at-line-end", "a custom delimiter separates statements only at the end of a line; elsewhere it is left in the statement text (silently read as an operand after 1$$$$)",
    (NA, dict(sql="delimiter $$\nselect 1$$ select 2$$\n")), g("delimiter $$\nselect 1$$$$\nselect 2$$\n"))
add("C13", "custom-delimiter-inside-literal", "the text is split on a custom delimiter without regard to quoting: a delimiter at the end of a line inside a string literal or comment cuts the statement",
    (NA, dict(sql="delimiter $$\nselect '$$\n'$$\nselect 2$$\n")), (NA, dict(sql="delimiter $$\nselect 1 /* $$\n */$$\nselect 2$$\n")))
add("C13", "comment-after-delimiter-directive", "the DELIMITER directive takes the rest of the line, a trailing comment included, as the delimiter",
    (NA, dict(sql="delimiter $$ -- procedures follow\nselect 1$$\nselect 2$$\n")))
# ---- C09
add("C09", "interval-unit-prefix-of-alias", "interval units are matched with CaselessLiteral (no word boundary): without AS the first letters of the alias are read as a unit",
    pd("select now() - interval '1 day' as yesterday", "select now() - interval '1 day' yesterday"), pd("select interval 1 day as d from t", "select interval 1 day d from t"))
add("C09", "date-cast-swallows-quoted-alias", "DATE / TIME / TIMESTAMP types take an optional quoted format: a quoted alias written without AS after ::date becomes the type parameter",
    pd('select a::date as "d" from t', 'select a::date "d" from t'))
add("C09", "delimiter-word-at-line-start", "the DELIMITER pre-pass runs on the raw text: a line break before a column named delimiter turns the rest of the line into a DELIMITER command",
    pd("select name, delimiter from file_formats", "select name,\ndelimiter from file_formats"))
add("C09", "returning-read-as-column", "RETURNING has no keyword in the grammar: the word is read as a column (so its case is kept) and the real column as its alias",
    pd("insert into t (a) values (1) returning a", "insert into t (a) values (1) RETURNING a"))
add("C09", "unknown-type-name-case", "a column type that is not in the type tables is kept as an identifier, so its letter case is significant",
    pd("create table t (id serial, amount money)", "create table t (id SERIAL, amount MONEY)"))
add("C09", "dash-identifier-context", "ident_w_dash only excludes the space character around a dash: a tab, line break or comment after the dash makes total- discount one dashed identifier",
    pd("select total- discount from t", "select total-\ndiscount from t", "parse_bigquery"))
# ---- C10
add("C10", "select-item-modifier-hoist", "to_select_call hoists OVER / FILTER / WITHIN GROUP of a call into the select item; redundant parentheses (or any other position) keep them inside the value",
    pd("select sum(a) over (partition by b) from t", "select (sum(a) over (partition by b)) from t"))
add("C10", "parenthesised-lambda-parameter", "(a) -> 'k' is read as a lambda with parameter a, a -> 'k' as json_get",
    pd("select a -> 'k' from t", "select (a) -> 'k' from t"))
add("C10", "interval-unit-eats-next-word", "interval units are matched without a word boundary: after INTERVAL 1 DAY the keyword DESC is read as unit d + 'ESC'",
    (R, dict(sql="select a from t order by d + interval 1 day desc")), pd("select (interval 1 day), q from t", "select interval 1 day, q from t"))
add("C10", "insert-values-parenthesised-literal", "get_literal does not look through parentheses: INSERT .. VALUES ((1), 'a') takes the general form instead of the literal-rows form",
    pd("insert into t (x, y) values (1, 'a'), (2, 'b')", "insert into t (x, y) values ((1), 'a'), (2, 'b')"))


def hunts():
    """C03: CASES list of (root, title, sql); C04: rt_sql(R, sql) lines grouped by the R = "..." assignment before them"""
    src = open(common.VERIF + "/hunts/hunt_C03.py").read()
    ns = {}
    m = re.search(r"^CASES = \[\n.*?^\]", src, re.S | re.M)
    exec(m.group(0), ns)
    groups = {}
    for root, title, sql in ns["CASES"]:
        groups.setdefault(root, [title, []])[1].append(sql)
    for root, (title, sqls) in sorted(groups.items()):
        if root not in ("R01", "R11", "R12", "R13", "R17", "R21", "R24", "R25", "R28"):
            continue        # the others repeat a listed finding or lie outside the formatter-supported fragment of C03
        add("C03", "hunt-" + root, title, *[rt(s) for s in sqls])
    src = open(common.VERIF + "/hunts/hunt_C04.py").read()
    cur, groups = None, {}
    for line in src.splitlines():
        m = re.match(r'^R = (".*")$', line)
        if m:
            cur = eval(m.group(1))
            continue
        m = re.match(r"^rt_sql\(R, (.*)\)$", line)
        if m and cur:
            groups.setdefault(cur, []).append(eval(m.group(1)))
    for title, sqls in groups.items():
        rid = title.split()[0]
        if rid not in ("R5", "R8", "R9", "R10", "R11", "R12", "R16", "R17"):
            continue        # the others repeat a listed operator edge or a finding of another property
        add("C04", "hunt-" + rid, title[len(rid) + 1:], *[rt(s) for s in sqls])


def reproduce(kind, a):
    fn = getattr(impl.M, a.get("entry", "parse"))
    if kind in (G, R, X):
        opts = dict(a.get("options", {}))
        if opts.get("calls") == "normal_op":
            opts["calls"] = impl.M.normal_op
        st, got = impl.outcome(fn, a["sql"], **opts)
        if kind == G:
            if st != "ok":
                return False, None
            a["bad"] = json.loads(json.dumps(got))
            return True, got
        return (st == "pe") if kind == R else (st == "exc"), got
    if kind == NA:
        st, got = impl.outcome(fn, a["sql"])
        return st != "ok", got
    if kind == RT:
        st, t = impl.outcome(fn, a["sql"])
        st2, txt = impl.outcome(impl.M.format, t) if st == "ok" else ("skip", None)
        st3, back = impl.outcome(fn, txt) if st2 == "ok" else ("skip", None)
        return st == "ok" and (st2 != "ok" or st3 != "ok" or canon(back) != canon(t)), txt
    if kind == PD:
        st, t = impl.outcome(fn, a["sql"])
        st2, t2 = impl.outcome(fn, a["sql2"])
        return st == "ok" and (st2 != "ok" or canon(t) != canon(t2)), (t, t2)
    raise ValueError(kind)


def main():
    hunts()
    out = []
    for pid, key, what, probes in L:
        kept = []
        for kind, a in probes:
            a = dict(a)
            ok, seen = reproduce(kind, a)
            print("%-4s %-45s %-16s %s  %s" % (pid, key, kind, "REPRO" if ok else "-----", a["sql"][:70].replace("\n", "\\n")))
            if ok:
                kept.append(dict(type=kind, **a))
        if kept:
            w = kept[0]
            out.append(dict(property=pid, key=key, what=what, witness=w["sql"] + (" | " + w["sql2"] if "sql2" in w else ""), probes=kept, source="bug-hunting agent (hunts/hunt_%s.py), reproduced against /repo" % pid))
    print(len(out), "findings with", sum(len(o["probes"]) for o in out), "probes")
    if "--write" in sys.argv:
        d = common.load_findings()
        have = {f["key"] for f in d["findings"]}
        d["findings"] += [o for o in out if o["key"] not in have]
        with open(common.VERIF + "/known_findings.json", "w") as f:
            json.dump(d, f, indent=1, ensure_ascii=False)
            f.write("\n")


if __name__ == "__main__":
    main()
