#!/venv/bin/python
# check.py <id> <quick|thorough|replay> [replay-file]
import sys, os, importlib, traceback, json
sys.path.insert(0, "/verif/harness")
from common import Ctx


def main():
    pid = sys.argv[1]
    tier = sys.argv[2] if len(sys.argv) > 2 else os.environ.get("VERIF_TIER", "quick")
    seed = int(os.environ.get("VERIF_SEED", "0") or 0)
    replay = None
    if tier == "replay":
        replay = sys.argv[3]
        tier = "quick"
    if replay:
        import common
        common.REPLAYS = "/verif/.work/replay_tmp"     # a replay run must not delete the file it replays
    ctx = Ctx(pid, tier, seed)
    ctx.replay = replay
    try:
        mod = importlib.import_module("props." + pid.lower())
    except Exception:
        traceback.print_exc()
        print("no check for", pid)
        return 2
    try:
        if replay:
            return mod.replay(ctx, json.load(open(replay)))
        mod.run(ctx)
        import common
        common.replay_probes(ctx)
    except Exception as e:
        traceback.print_exc()
        ctx.obligation("check ran to completion", False, repr(e))
        ctx.violation("obligation", dict(what="the check itself failed: the translator, the model or the correspondence could not be evaluated (fail closed)",
                                         error=repr(e), trace=traceback.format_exc()[-3000:]), no_input=True)
    return ctx.finish()


if __name__ == "__main__":
    sys.exit(main())
