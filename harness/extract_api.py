# Translator: AST of mo_sql_parsing/__init__.py (and formatting.py) -> Generated/ApiShape.v.  Fail-closed pattern matching.
import ast, os, sys
sys.path.insert(0, "/verif/harness")
from common import COQ, write_if_changed, cstr

SRC = "/repo/mo_sql_parsing/__init__.py"
FMT = "/repo/mo_sql_parsing/formatting.py"


class ShapeError(Exception):
    pass


def src(n):
    return ast.unparse(n)


def parse_shape(tree):
    fn = [n for n in tree.body if isinstance(n, ast.FunctionDef) and n.name == "_parse"]
    if len(fn) != 1:
        raise ShapeError("_parse not found")
    fn = fn[0]
    args = [a.arg for a in fn.args.args]
    if args != ["parser", "sql", "null", "calls", "fmap"]:
        raise ShapeError("_parse signature changed: %r" % args)
    loops = [n for n in fn.body if isinstance(n, ast.For)]
    if len(loops) != 1 or src(loops[0].iter) != "parse_delimiters(sql)":
        raise ShapeError("_parse: expected one loop over parse_delimiters(sql)")
    pre = [n for n in fn.body if n is not loops[0]]
    effects = []
    acc_seen = False
    for st in loops[0].body:
        s = src(st)
        if s == "_utils.null_locations = []":
            effects.append("E_ResetNL")
        elif s == "_utils.scrub_op = calls":
            effects.append("E_InstallOp")
        elif s == "_utils.fmap = fmap or {}":
            effects.append("E_InstallFmap")
        elif s == "parse_result = parser.parse_string(line, parse_all=True)":
            effects.append("E_Match")
        elif s == "output = scrub(parse_result)":
            effects.append("E_Scrub")
        elif isinstance(st, ast.For) and src(st.iter) == "_utils.null_locations" and src(st.target) == "(o, n)" and len(st.body) == 1 \
                and src(st.body[0]) in ("o[n] = null", "o[n] = {'null': {}} if null is SQL_NULL else null"):
            effects.append("E_Subst")
        elif "E_Subst" in effects and not any(w in s for w in ("_utils", "scrub(", "parse_string", "null_locations", "lookup_parsers")):
            # result accumulation (its exact form is C13's business): any statements after the substitution loop that touch no parse-scoped global
            if not acc_seen:
                effects.append("E_Acc")
                acc_seen = True
        else:
            raise ShapeError("_parse loop: unrecognised statement: %s" % s)
    # the statements around the loop: acc = [] before, the None / single / list rule after
    tail = [src(n) for n in pre]
    if any(w in t for t in tail for w in ("_utils", "scrub(", "parse_string", "null_locations", "lookup_parsers")):
        raise ShapeError("_parse: a statement outside the loop touches parse-scoped state: %r" % tail)
    fresh_default_null = any(isinstance(st, ast.For) and "SQL_NULL else null" in src(st) for st in loops[0].body)
    return effects, fresh_default_null


def entry_points(tree):
    out = []
    for name, dialect in (("parse", "common_parser"), ("parse_mysql", "mysql_parser"), ("parse_sqlserver", "sqlserver_parser"), ("parse_bigquery", "bigquery_parser")):
        fn = [n for n in tree.body if isinstance(n, ast.FunctionDef) and n.name == name]
        if len(fn) != 1:
            raise ShapeError("entry point %s not found" % name)
        fn = fn[0]
        body = [n for n in fn.body if not (isinstance(n, ast.Expr) and isinstance(n.value, ast.Constant))]
        locked = len(body) == 1 and isinstance(body[0], ast.With) and len(body[0].items) == 1 and src(body[0].items[0].context_expr) == "parse_locker"
        inner = body[0].body if locked else body
        ss = [src(n) for n in inner]
        if len(ss) != 2 or ss[0] != "parser = _get_or_create_parser('%s', all_columns)" % dialect:
            raise ShapeError("entry point %s: unexpected body %r" % (name, ss))
        fifth = fn.args.args[4].arg
        if ss[1] != "return _parse(parser, sql, null, calls or simple_op, %s)" % fifth:
            raise ShapeError("entry point %s: unexpected call of _parse: %s" % (name, ss[1]))
        defaults = [src(d) for d in fn.args.defaults]
        if defaults != ["SQL_NULL", "None", "None", "None"]:
            raise ShapeError("entry point %s: defaults changed: %r" % (name, defaults))
        out.append((name, dialect, locked))
    return out


def cache_shape(tree):
    fn = [n for n in tree.body if isinstance(n, ast.FunctionDef) and n.name == "_get_or_create_parser"][0]
    s = src(fn)
    both = "lookup_parsers[parser_name][all_columns]" in s and "getattr(sql_parser, parser_name)(all_columns)" in s
    return both


def formatter_writes():
    """AST scan of formatting.py: statements that could modify the tree handed to format (assignment / del through a subscript or attribute of a
    parameter named json / value / pair / checks, or a mutating method call on it)"""
    tree = ast.parse(open(FMT).read())
    MUT = {"pop", "append", "extend", "update", "clear", "remove", "insert", "setdefault", "popitem", "sort", "reverse"}
    hits = []
    for fn in ast.walk(tree):
        if not isinstance(fn, ast.FunctionDef):
            continue
        params = {a.arg for a in fn.args.args} - {"self", "prec"}
        rebound = set()
        for n in ast.walk(fn):
            # a parameter re-bound to a fresh container (json = {k: v ...}, set = listwrap(...)) is no longer the caller's object
            if isinstance(n, ast.Assign) and len(n.targets) == 1 and isinstance(n.targets[0], ast.Name) and n.targets[0].id in params:
                rebound.add(n.targets[0].id)
        for n in ast.walk(fn):
            tgt = None
            if isinstance(n, (ast.Assign, ast.AugAssign, ast.Delete)):
                targets = n.targets if not isinstance(n, ast.AugAssign) else [n.target]
                for t in targets:
                    if isinstance(t, (ast.Subscript, ast.Attribute)):
                        base = t.value
                        while isinstance(base, (ast.Subscript, ast.Attribute)):
                            base = base.value
                        if isinstance(base, ast.Name) and base.id in params and base.id not in rebound:
                            tgt = ast.unparse(n)
            if isinstance(n, ast.Call) and isinstance(n.func, ast.Attribute) and n.func.attr in MUT:
                base = n.func.value
                while isinstance(base, (ast.Subscript, ast.Attribute)):
                    base = base.value
                if isinstance(base, ast.Name) and base.id in params and base.id not in rebound:
                    tgt = ast.unparse(n)
            if tgt:
                hits.append("%s: %s" % (fn.name, tgt))
    return hits


def extract():
    tree = ast.parse(open(SRC).read())
    effects, fresh_null = parse_shape(tree)
    eps = entry_points(tree)
    both = cache_shape(tree)
    fw = formatter_writes()
    return dict(effects=effects, fresh_default_null=fresh_null, entry_points=eps, cache_keyed_by_both=both, formatter_writes=fw)


def coq(A):
    L = ["(* GENERATED by harness/extract_api.py from the AST of /repo/mo_sql_parsing/__init__.py -- do not edit *)",
         "From Coq Require Import List String Bool.", "From MoSql Require Import Base.Json Model.Scrub Model.Api.", "Import ListNotations.",
         "Open Scope string_scope. Open Scope list_scope.",
         "Definition parse_shape : list effect := [%s]." % "; ".join(A["effects"]),
         "Definition entry_points : list (string * string * bool) := [%s]." % "; ".join("(%s, %s, %s)" % (cstr(n), cstr(d), "true" if l else "false") for n, d, l in A["entry_points"]),
         "Definition all_locked : bool := forallb (fun e => snd e) entry_points.",
         "Definition cache_keyed_by_both : bool := %s." % ("true" if A["cache_keyed_by_both"] else "false"),
         "Definition fresh_default_null : bool := %s." % ("true" if A["fresh_default_null"] else "false"),
         "Definition formatter_writes : list string := [%s]." % "; ".join(cstr(x) for x in A["formatter_writes"])]
    return "\n".join(L) + "\n"


def main():
    A = extract()
    write_if_changed(COQ + "/Generated/ApiShape.v", coq(A))
    return A


if __name__ == "__main__":
    print(main())
