# L1/L3 expression core: abstract trees <-> JSON, tokeniser of implementation text, generators, Coq case runner.
import json, re, random
from common import *
import impl
import regen

T = None           # tables (dict) of this run
NID = {}
LIST_ATOM = 900    # JA 900+k stands for the k-th parenthesised literal list (right operand of IN)
LISTS = [[71, 72], [73, 74, 75]]


STALE = None      # set when the translator failed closed on the current tree: tables of the last good run are used for searching only


def load_tables():
    global T, NID, STALE
    if T is None:
        try:
            T, changed = regen.main()
        except Exception as e:
            import traceback
            STALE = "%s: %s" % (type(e).__name__, e)
            traceback.print_exc()
            T = json.load(open(regen.GEN + "/tables.json"))
        NID = {n: i for i, n in enumerate(T["names"])}
    return T


# ---------------------------------------------------------------- abstract trees
# abstract tree: ("A", n) | ("C", name, [args]) | ("T", sid)
def to_json(t):
    if t[0] == "A":
        n = t[1]
        if n == 0:
            return {"null": {}}
        if n >= LIST_ATOM:
            return list(LISTS[n - LIST_ATOM])
        return "x%d" % n
    if t[0] == "C":
        args = [to_json(a) for a in t[2]]
        return {t[1]: args[0] if len(args) == 1 else args}
    raise ValueError(t)


def from_json(j):
    """implementation tree -> abstract tree (operator tokens misused as operands become ("T", sid)); None when outside the abstraction"""
    if isinstance(j, str):
        m = re.fullmatch(r"x(\d+)", j)
        if m:
            return ("A", int(m.group(1)))
        sid = spelling_id([j.lower()])
        if sid is not None:
            return ("T", sid)
        return None
    if isinstance(j, list):
        if j in LISTS:
            return ("A", LIST_ATOM + LISTS.index(j))
        if all(isinstance(w, str) for w in j):
            sid = spelling_id([w.lower() for w in j])
            if sid is not None:
                return ("T", sid)
        return None
    if isinstance(j, dict):
        if j == {"null": {}}:
            return ("A", 0)
        if len(j) != 1:
            return None
        (k, v), = j.items()
        if k == "literal" and v in LISTS:
            return ("A", LIST_ATOM + LISTS.index(v))
        if k not in NID:
            return None
        args = v if isinstance(v, list) and v not in LISTS else [v]
        if isinstance(v, list) and from_json(v) is not None and from_json(v)[0] == "T":
            args = [v]
        out = []
        for a in args:
            r = from_json(a)
            if r is None:
                return None
            out.append(r)
        return ("C", k, out)
    return None


def spelling_id(words, kinds=None):
    for i, s in enumerate(T["spell"]):
        if s["words"] == words and (kinds is None or T["entries"][s["entry"]]["kind"] in kinds):
            return i
    return None


def coq_tree(t):
    if t[0] == "A":
        return "(JA %d)" % t[1]
    if t[0] == "T":
        return "(JT %d)" % t[1]
    return "(JC %d [%s])" % (NID[t[1]], "; ".join(coq_tree(a) for a in t[2]))


# ---------------------------------------------------------------- tokeniser of the implementation's expression text
TOK = re.compile(r"\s*(\d+\.\d+|\d+|[A-Za-z_][A-Za-z_0-9]*|<=>|<>|!=|==|<=|>=|\|\||!~\*|!~|~\*|->>|->|#>>|#>|@>|<@|\?\||\?&|#-|:=|::|[-+*/%&|<>=~?(),])")


def lex(text):
    out, pos = [], 0
    text = text.strip()
    while pos < len(text):
        m = TOK.match(text, pos)
        if not m:
            raise ValueError("cannot tokenise %r at %d" % (text, pos))
        out.append(m.group(1))
        pos = m.end()
    return out


def tokens_of_text(text):
    """implementation text -> [(tag, id)] with the two-state discipline of the engine (operand expected / operator expected).
    tags: 0 atom | 1 prefix | 2 infix | 3 ( | 4 )"""
    ws = [w.lower() for w in lex(text)]
    out = []
    i = 0
    expect_operand = True
    prefix = sorted([(s["words"], k) for k, s in enumerate(T["spell"]) if T["entries"][s["entry"]]["kind"] == "pre"], key=lambda x: -len(x[0]))
    infix = sorted([(s["words"], k) for k, s in enumerate(T["spell"]) if T["entries"][s["entry"]]["kind"] in ("bin", "tern")], key=lambda x: -len(x[0]))
    after_in = False
    while i < len(ws):
        w = ws[i]
        if expect_operand:
            if after_in and w == "(":
                # a parenthesised literal list is one atom
                depth, j = 0, i
                while True:
                    if ws[j] == "(":
                        depth += 1
                    elif ws[j] == ")":
                        depth -= 1
                        if depth == 0:
                            break
                    j += 1
                nums = [int(x) for x in ws[i + 1:j] if x != ","]
                if nums not in LISTS:
                    raise ValueError("unknown literal list %r" % nums)
                out.append((0, LIST_ATOM + LISTS.index(nums)))
                i = j + 1
                expect_operand = False
                after_in = False
                continue
            after_in = False
            if w == "(":
                out.append((3, 0)); i += 1; continue
            m = re.fullmatch(r"x(\d+)", w)
            if m:
                out.append((0, int(m.group(1)))); i += 1; expect_operand = False; continue
            if w == "null":
                out.append((0, 0)); i += 1; expect_operand = False; continue
            for words, k in prefix:
                if ws[i:i + len(words)] == words:
                    out.append((1, k)); i += len(words); break
            else:
                raise ValueError("operand expected at %r in %r" % (w, text))
        else:
            if w == ")":
                out.append((4, 0)); i += 1; continue
            for words, k in infix:
                if ws[i:i + len(words)] == words:
                    out.append((2, k)); i += len(words); expect_operand = True
                    after_in = T["spell"][k]["name"] in ("in", "nin")
                    break
            else:
                raise ValueError("operator expected at %r in %r" % (w, text))
    return out


def text_of_tokens(toks):
    out = []
    for tag, n in toks:
        if tag == 0:
            out.append("NULL" if n == 0 else ("(" + ", ".join(map(str, LISTS[n - LIST_ATOM])) + ")" if n >= LIST_ATOM else "x%d" % n))
        elif tag in (1, 2, 5):
            out.append(" ".join(T["spell"][n]["words"]))
        elif tag == 3:
            out.append("(")
        elif tag == 4:
            out.append(")")
    return " ".join(out)


def ctoks(toks):
    return "[" + "; ".join("(%d, %d)" % t for t in toks) + "]"


# ---------------------------------------------------------------- generators of normal-form trees
def vocab():
    return sorted(T["info"])


def arity(name):
    k = T["info"][name]["kind"]
    return {"KBin": 2, "KNary": 2, "KPre": 1, "KTern": 3, "KBinNull": 1}[k]


def gen_tree(rnd, depth, nary_max=3, names=None):
    names = names or vocab()
    cnt = [0]

    def atom():
        cnt[0] += 1
        return ("A", cnt[0])

    def go(d, parent=None):
        if d <= 0 or rnd.random() < 0.15:
            return atom()
        name = rnd.choice(names)
        info = T["info"][name]
        k = info["kind"]
        if k == "KNary":
            n = rnd.randint(2, nary_max)
            args = []
            for _ in range(n):
                a = go(d - 1, name)
                while a[0] == "C" and a[1] == name:
                    a = go(d - 1, name)
                args.append(a)
            return ("C", name, args)
        if k == "KBin":
            l = go(d - 1, name)
            r = ("A", LIST_ATOM + rnd.randrange(len(LISTS))) if info["ratom"] else go(d - 1, name)
            return ("C", name, [l, r])
        if k == "KTern":
            return ("C", name, [go(d - 1, name), go(d - 1, name), go(d - 1, name)])
        return ("C", name, [go(d - 1, name)])

    return go(depth)


def depth2_trees():
    """every outer x slot x inner over the formatter's infix vocabulary"""
    out = []
    for P in vocab():
        iP = T["info"][P]
        nslots = 1 if iP["ratom"] else arity(P)
        for s in range(nslots):
            for C in vocab():
                if C == P and iP["kind"] == "KNary":
                    continue
                out.append((P, s, C, make_depth2(P, s, C)))
    return out


def make_inner(C, base):
    iC = T["info"][C]
    n = arity(C)
    args = [("A", base + i) for i in range(n)]
    if iC["ratom"]:
        args[1] = ("A", LIST_ATOM)
    return ("C", C, args)


def make_depth2(P, s, C):
    iP = T["info"][P]
    n = arity(P)
    args = [("A", 1 + i) for i in range(n)]
    if iP["ratom"]:
        args[1] = ("A", LIST_ATOM + 1)
    args[s] = make_inner(C, 10)
    return ("C", P, args)


def edges(t):
    """(parent, slot, child) triples of a tree (slot index as the model counts it: n-ary chains have slots 0 and 1)"""
    out = []
    if t[0] == "C" and t[1] in T["info"]:
        k = T["info"][t[1]]["kind"]
        for i, a in enumerate(t[2]):
            s = (0 if i == 0 else 1) if k == "KNary" else i
            if a[0] == "C" and a[1] in T["info"]:
                out.append((t[1], s, a[1]))
            out += edges(a)
    return out


HEADER = """From Coq Require Import List Arith Bool.
Import ListNotations.
From MoSql Require Import Model.Infix Model.Expr Model.Fmt Proofs.TableChecks Generated.Tables Model.L1.
Definition pair_eqb (a b : nat * nat) := Nat.eqb (fst a) (fst b) && Nat.eqb (snd a) (snd b).
Fixpoint toks_eqb (a b : list (nat * nat)) : bool :=
  match a, b with [] , [] => true | x :: a', y :: b' => pair_eqb x y && toks_eqb a' b' | _, _ => false end.
(* case: tree, context prec, implementation's token list for format(tree), implementation's re-parse of that text *)
Definition case := (jv * nat * list (nat * nat) * option jv)%type.
Definition fmt_ok (c : case) : bool := let '(t, p, toks, r) := c in toks_eqb (show (tokens' (mformat' t p))) toks.
Definition parse_ok (c : case) : bool :=
  let '(t, p, toks, r) := c in
  match parse' (2 * length toks + 2) (unshow toks), r with
  | Some (v, []), Some w => jv_eqb v w
  | Some (v, _ :: _), None => true
  | None, None => true
  | _, _ => false
  end.
Definition edge_ok (c : case) : bool := let '(t, p, toks, r) := c in edges_ok' t p.
Definition roundtrip (c : case) : bool := let '(t, p, toks, r) := c in match r with Some w => jv_eqb t w | None => false end.
Fixpoint failing (f : case -> bool) (i : nat) (l : list case) : list nat :=
  match l with [] => [] | c :: t => (if f c then [] else [i]) ++ failing f (S i) t end.
"""


def run_cases(ctx, name, cases, shard=400):
    """cases: list of Coq terms of type case. returns dict of failing index lists: fmt, parse, edge(bad edges), rt(round trip failed)"""
    import concurrent.futures as cf
    shards = [cases[i:i + shard] for i in range(0, len(cases), shard)]

    def one(i):
        body = HEADER + "Definition cases : list case := [\n" + ";\n".join(shards[i]) + "\n].\n"
        for nm, f in (("FMT", "fmt_ok"), ("PARSE", "parse_ok"), ("EDGE", "edge_ok"), ("RT", "roundtrip")):
            body += "Definition %s := failing %s 0 cases.\nEval vm_compute in %s.\n" % (nm, f, nm)
        ok, out = ctx.coq_eval("%s_%d" % (name, i), body)
        if not ok:
            return i, None, out
        parts = re.findall(r"=\s*\[(.*?)\]\s*:\s*list nat", out, re.S)
        if len(parts) != 4:
            return i, None, out
        return i, [[int(x) for x in b.replace("\n", " ").split(";") if x.strip()] for b in parts], out

    acc = dict(fmt=[], parse=[], edge=[], rt=[])
    with cf.ThreadPoolExecutor(max_workers=min(NCPU, 12)) as ex:
        for i, res, out in ex.map(one, range(len(shards))):
            if res is None:
                return None, out
            for key, idx in zip(("fmt", "parse", "edge", "rt"), res):
                acc[key].extend(i * shard + j for j in idx)
    ctx.checker_cmds.append("coqc -Q coq MoSql <generated case files> (Eval vm_compute)")
    return acc, ""


def full_sql(t):
    """independent, fully parenthesised SQL text of an abstract tree over the formatter's infix vocabulary"""
    if t[0] == "A":
        n = t[1]
        return "NULL" if n == 0 else ("(" + ", ".join(map(str, LISTS[n - LIST_ATOM])) + ")" if n >= LIST_ATOM else "x%d" % n)
    name, args = t[1], t[2]
    i = T["info"][name]
    w = " ".join(T["spell"][i["sp"]]["words"])
    a = [full_sql(x) if x[0] == "A" else "(" + full_sql(x) + ")" for x in args]
    k = i["kind"]
    if k == "KPre":
        return "%s %s" % (w, a[0])
    if k == "KBinNull":
        return "%s %s NULL" % (a[0], w)
    if k == "KTern":
        return "%s %s %s %s %s" % (a[0], w, a[1], " ".join(T["spell"][i["sp2"]]["words"]), a[2])
    return (" %s " % w).join(a)
