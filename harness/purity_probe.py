# Run in a fresh interpreter: builds the eight cached parsers in the given order and reports every grammar node of an ALREADY BUILT parser
# whose structure (children identity, parse actions, names) is changed by a LATER build.  Prints one JSON object.
import sys, json, warnings
warnings.filterwarnings("ignore")
sys.path.insert(0, "/repo")
import mo_sql_parsing as M

order = json.loads(sys.argv[1])


def walk(p):
    seen, out = set(), {}
    stack = [p.element]
    while stack:
        e = stack.pop()
        if id(e) in seen:
            continue
        seen.add(id(e))
        kids = []
        for attr in ("expr", "exprs"):
            try:
                v = getattr(e, attr)
            except Exception:
                continue
            if v is None:
                continue
            vs = list(v) if isinstance(v, (list, tuple)) else [v]
            kids += vs
        out[id(e)] = (type(e).__name__, tuple(id(k) for k in kids), len(getattr(e, "parse_action", None) or []), getattr(e, "parser_name", ""), getattr(e, "token_name", ""))
        stack.extend(kids)
    return out, seen


built = {}
changes = []
keep = []
for k in order:
    name, ac = k
    p = M._get_or_create_parser(name, ac)
    keep.append(p)
    for k0, (snap, _) in built.items():
        now, _ = walk(M.lookup_parsers[k0[0]][k0[1]])
        for i, rec in snap.items():
            if i in now and now[i] != rec:
                changes.append(dict(built_first=list(k0), changed_by_build_of=[name, ac], node=rec[0], name=rec[3] or rec[4], before_children=len(rec[1]), after_children=len(now[i][1])))
        if set(now) != set(snap):
            changes.append(dict(built_first=list(k0), changed_by_build_of=[name, ac], node="(graph)", name="reachable node set changed", before_children=len(snap), after_children=len(now)))
    built[(name, ac)] = walk(p)
    # re-snapshot every earlier parser so that each change is reported once
    for k0 in list(built):
        built[k0] = walk(M.lookup_parsers[k0[0]][k0[1]])
print(json.dumps(dict(changes=changes[:20], nodes={"%s/%s" % k: len(v[0]) for k, v in built.items()})))
