# Grammar-directed generators of SQL text (mostly valid).  All randomness comes from the Random passed in.
import random

BIN = ["+", "-", "*", "/", "%", "||", "&", "|", "<", "<=", ">", ">=", "=", "==", "!=", "<>", "and", "or",
       "like", "not like", "ilike", "rlike", "in", "not in", "is", "is not"]
FUNCS = ["f", "g", "sum", "coalesce", "nvl", "max", "concat", "ifnull", "abs", "lower", "decode"]
TYPES = ["int", "integer", "varchar(10)", "decimal(10,2)", "text", "date", "timestamp", "bigint", "float", "boolean", "char(3)", "double"]
JOINS = ["join", "inner join", "left join", "right join", "full join", "cross join", "left outer join", "right outer join", "full outer join"]
SETOPS = ["union", "union all", "intersect", "except", "minus"]


class G:
    def __init__(self, rnd, null_rate=0.12, max_depth=3):
        self.r = rnd
        self.null_rate = null_rate
        self.max_depth = max_depth
        self.n = 0

    ordered_set = False      # C05: WITHIN GROUP (...) followed by FILTER / OVER
    paren_query = False      # C05 / C02: a whole query in parentheses followed by ORDER BY / LIMIT
    accessors = False        # C18 / C09: also generate member access after a call or a parenthesis
    locking = True           # C03: FOR UPDATE / FOR SHARE is outside the formatter-supported fragment
    mark_as = False          # C09: emit the optional AS as a marker so that both spellings can be produced from one statement

    def opt_as(self):
        if self.mark_as:
            self.r.random()
            return " \x01as\x01 "
        return self.r.choice([" as ", " "])

    def ident(self, p="c"):
        self.n += 1
        return "%s%d" % (p, self.n)

    def atom(self):
        r = self.r
        x = r.random()
        if x < self.null_rate:
            return "null"
        if x < 0.45:
            return self.ident()
        if x < 0.6:
            return str(r.randint(0, 99))
        if x < 0.68:
            return "%d.%d" % (r.randint(0, 9), r.randint(1, 99))
        if x < 0.8:
            return "'" + r.choice(["a", "it''s", "x y", "", "NULL", "a;b", "-- c", "''q''", "''", "''''", "q''"]) + "'"
        if x < 0.85:
            return r.choice(["true", "false"])
        if x < 0.92:
            return self.ident("t") + "." + self.ident()
        return "-" + str(r.randint(1, 9))

    def expr(self, d=None):
        r = self.r
        d = self.max_depth if d is None else d
        if d <= 0:
            return self.atom()
        x = r.random()
        if x < 0.25:
            return self.atom()
        if x < 0.55:
            op = r.choice(BIN)
            a, b = self.expr(d - 1), self.expr(d - 1)
            if op in ("in", "not in"):
                k = r.randint(1, 3)
                b = "(" + ", ".join(self.expr(d - 1) for _ in range(k)) + ")"
            if op in ("is", "is not") and r.random() < 0.7:
                b = "null"
            s = "%s %s %s" % (a, op, b)
            return "(" + s + ")" if r.random() < 0.5 else s
        if x < 0.7:
            f = r.choice(FUNCS)
            k = r.choice([0, 1, 1, 1, 2, 2, 3])
            args = ", ".join(self.expr(d - 1) for _ in range(k))
            if f in ("sum", "max") and k == 1 and r.random() < 0.3:
                args = "distinct " + args
            if self.accessors and r.random() < 0.25:
                # member access on the result of a call or of a parenthesised expression (suffix operators of the expression grammar)
                return r.choice(["%s(%s).%s" % (f, args, self.ident("m")), "(%s).%s" % (self.atom(), self.ident("m"))])
            return "%s(%s)" % (f, args)
        if x < 0.78:
            n = r.randint(1, 2)
            s = "case"
            if r.random() < 0.3:
                s += " " + self.expr(d - 1)
            for _ in range(n):
                s += " when %s then %s" % (self.expr(d - 1), self.expr(d - 1))
            if r.random() < 0.6:
                s += " else " + self.expr(d - 1)
            return s + " end"
        if x < 0.84:
            return "cast(%s as %s)" % (self.expr(d - 1), r.choice(TYPES))
        if x < 0.88:
            return "%s between %s and %s" % (self.atom(), self.atom(), self.atom())
        if x < 0.92:
            if r.random() < 0.3:
                # an explicit unary minus over a numeric literal: only a sign written directly before the number folds into it
                n = r.randint(1, 99)
                return r.choice(["-(%d)", "- -%d", "-(-%d)", "- (%d.5)", "-(%d) * 2", "c0 - -%d"]) % n
            return r.choice(["not ", "- ", "~ "]) + self.expr(d - 1)
        if x < 0.95:
            return "(%s)" % self.expr(d - 1)
        if x < 0.975:
            return "%s::%s" % (self.atom(), r.choice(["int", "text", "date"]))
        return "(%s, %s)" % (self.expr(d - 1), self.expr(d - 1))

    def window(self):
        r = self.r
        f = r.choice(["sum", "row_number", "rank", "max", "lag"])
        arg = "" if f in ("row_number", "rank") else self.expr(1)
        s = "%s(%s)" % (f, arg)
        if self.ordered_set and r.random() < 0.25:
            # ordered-set aggregate: WITHIN GROUP, then optionally FILTER or OVER (both orders of the postfix modifiers that the grammar accepts)
            s = "%s(%s) within group (order by %s%s)" % (r.choice(["percentile_cont", "listagg", "mode"]), r.choice(["0.5", self.atom(), ""]), self.expr(1), r.choice(["", " desc"]))
            x = r.random()
            if x < 0.4:
                return s + " filter (where %s)" % self.expr(1)
            if x < 0.6:
                return s
        if r.random() < 0.2 and arg:
            s += " filter (where %s)" % self.expr(1)
            if r.random() < 0.5:
                return s
        parts = []
        if r.random() < 0.6:
            parts.append("partition by " + ", ".join(self.expr(1) for _ in range(r.randint(1, 2))))
        if r.random() < 0.6:
            parts.append("order by " + ", ".join(self.expr(1) + r.choice(["", " asc", " desc"]) for _ in range(r.randint(1, 2))))
        if r.random() < 0.4 and parts:
            unit = r.choice(["rows", "range"])
            b = ["unbounded preceding", "%d preceding" % r.randint(1, 9), "current row", "%d following" % r.randint(1, 9), "unbounded following"]
            i = r.randint(0, 4)
            j = r.randint(i, 4)
            if r.random() < 0.4:
                parts.append("%s %s" % (unit, b[r.randint(0, 2)]))
            else:
                parts.append("%s between %s and %s" % (unit, b[i], b[j]))
        return s + " over (" + " ".join(parts) + ")"

    def select_item(self, d):
        r = self.r
        x = r.random()
        if x < 0.06:
            return "*"
        if x < 0.1:
            return self.ident("t") + ".*"
        e = self.window() if x < 0.2 else self.expr(d)
        if r.random() < 0.35:
            e += self.opt_as() + self.ident("n")
        return e

    def source(self, d):
        r = self.r
        if d > 0 and r.random() < 0.2:
            return "(%s) as %s" % (self.query(d - 1, setop=False), self.ident("q"))
        t = self.ident("t")
        if r.random() < 0.15:
            t = self.ident("s") + "." + t
        if r.random() < 0.4:
            t += self.opt_as() + self.ident("a")
        return t

    def simple(self, d):
        r = self.r
        kind = r.choice(["select", "select", "select", "select distinct"])
        sql = kind + " " + ", ".join(self.select_item(min(d, 2)) for _ in range(r.randint(1, 4)))
        nsrc = r.randint(0, 3)
        if nsrc:
            sql += " from " + self.source(d)
            for _ in range(nsrc - 1):
                if r.random() < 0.35:
                    sql += ", " + self.source(d)
                else:
                    jk = r.choice(JOINS)
                    sql += " %s %s" % (jk, self.source(d))
                    if jk != "cross join":
                        sql += (" on " + self.expr(2)) if r.random() < 0.8 else " using (%s)" % self.ident()
            if r.random() < 0.5:
                sql += " where " + self.expr(2)
            if r.random() < 0.3:
                sql += " group by " + ", ".join(self.expr(1) for _ in range(r.randint(1, 2)))
                if r.random() < 0.5:
                    sql += " having " + self.expr(2)
        return sql

    def tail(self):
        r = self.r
        sql = ""
        if r.random() < 0.4:
            sql += " order by " + ", ".join(self.expr(1) + r.choice(["", " asc", " desc"]) for _ in range(r.randint(1, 2)))
        x = r.random()
        num = lambda: r.choice([0, r.randint(1, 99), r.randint(1, 99), r.randint(1, 99)])      # zero is a value like any other
        if x < 0.3:
            sql += " limit %d" % num()
            if r.random() < 0.5:
                sql += " offset %d" % num()
        elif x < 0.4:
            if r.random() < 0.5:
                sql += " offset %d rows" % num()
            sql += " fetch %s %d rows only" % (r.choice(["first", "next"]), num())
        if r.random() < 0.08 and self.locking:
            sql += " for %s of %s%s" % (r.choice(["update", "share"]), self.ident("t"), r.choice(["", " nowait"]))
        return sql

    def query(self, d=1, setop=True):
        r = self.r
        if self.paren_query and d > 0 and r.random() < 0.06:
            # a parenthesised query followed by its own tail
            return "(%s)%s" % (self.simple(d), self.tail() or " limit 3")
        if setop and r.random() < 0.3:
            n = r.randint(2, 4)
            parts = []
            for _ in range(n):
                if r.random() < 0.25:
                    parts.append("(" + self.query(d, True) + ")")
                else:
                    parts.append(self.simple(d))
            sql = parts[0]
            for p in parts[1:]:
                sql += " " + r.choice(SETOPS) + " " + p
            return sql + self.tail()
        sql = self.simple(d) + self.tail()
        if r.random() < 0.12:
            ctes = ", ".join("%s as (%s)" % (self.ident("w"), self.simple(0)) for _ in range(r.randint(1, 2)))
            sql = "with " + ctes + " " + sql
        return sql

    def insert(self):
        r = self.r
        ncol = r.randint(0, 4)
        cols = [self.ident() for _ in range(ncol)]
        sql = "insert into " + self.ident("t")
        if cols:
            sql += " (" + ", ".join(cols) + ")"
        if r.random() < 0.25:
            return sql + " " + self.simple(0)
        n = ncol or r.randint(1, 3)
        if r.random() < 0.35:
            # rows of plain literals (the parser keeps these as a literal table)
            lit = lambda: r.choice([str(r.randint(1, 99)), "'a%d'" % r.randint(1, 9), "%d.5" % r.randint(1, 9)])
            rows = ["(" + ", ".join(lit() for _ in range(n)) + ")" for _ in range(r.randint(1, 4))]
        else:
            rows = ["(" + ", ".join(self.expr(1) for _ in range(n)) + ")" for _ in range(r.randint(1, 3))]
        return sql + " values " + ", ".join(rows)

    def update(self):
        r = self.r
        sql = "update %s set " % self.ident("t") + ", ".join("%s = %s" % (self.ident(), self.expr(1)) for _ in range(r.randint(1, 4)))
        if r.random() < 0.6:
            sql += " where " + self.expr(2)
        return sql

    def delete(self):
        sql = "delete from " + self.ident("t")
        if self.r.random() < 0.7:
            sql += " where " + self.expr(2)
        return sql

    def create(self):
        r = self.r
        cols = []
        for _ in range(r.randint(1, 5)):
            c = self.ident() + " " + r.choice(TYPES)
            for o in r.sample(["not null", "null", "unique", "primary key", "default %d" % r.randint(0, 9), "default null",
                               "default 'x'", "check (%s)" % self.expr(1), "references %s(%s)" % (self.ident("t"), self.ident())], r.choice([0, 0, 1, 1, 2])):
                if o == "null" and "not null" in c:
                    continue
                if o == "not null" and " null" in c:
                    continue
                c += " " + o
            cols.append(c)
        for _ in range(r.choice([0, 0, 1])):
            cols.append(r.choice(["primary key (%s)" % self.ident(), "unique (%s, %s)" % (self.ident(), self.ident()),
                                  "constraint %s check (%s)" % (self.ident("k"), self.expr(1)),
                                  "foreign key (%s) references %s(%s)" % (self.ident(), self.ident("t"), self.ident())]))
        return "create table %s (%s)" % (self.ident("t"), ", ".join(cols))

    def statement(self):
        x = self.r.random()
        self.n = 0
        if x < 0.6:
            return self.query(1)
        if x < 0.72:
            return self.insert()
        if x < 0.8:
            return self.update()
        if x < 0.86:
            return self.delete()
        if x < 0.94:
            return self.create()
        return "select " + self.expr(3)


def statements(rnd, n, **kw):
    g = G(rnd, **kw)
    return [g.statement() for _ in range(n)]
