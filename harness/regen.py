# Regenerates coq/Generated/*.v (and tables.json for the harness) from /repo's working tree.  Run by setup.sh and by every check.
import json, os, sys
sys.path.insert(0, "/verif/harness")
from common import COQ, write_if_changed, cstr
import extract_tables as X
from extract_tables import ExtractError

GEN = COQ + "/Generated"
UNPROBEABLE = {"collate"}      # renderers that do not dispatch all their operands (second operand is a bare name)


def dbl(p):
    v = p * 2
    if v != int(v):
        raise ExtractError("precedence %r is not a multiple of 0.5" % p)
    return int(v) + 4      # offset so that the negative "literal" levels stay natural numbers


def words_of(text):
    import re
    return [w for w in re.split(r"\s+", text.strip().lower()) if w]


def build_l1():
    from mo_sql_parsing.formatting import Formatter
    t = X.extract_l1()
    entries = t["entries"]
    # ---- spelling ids
    spell = []      # sid -> dict(entry, words, name, role)
    def add_sp(entry, words, name, role):
        spell.append(dict(entry=entry, words=words, name=name, role=role))
        return len(spell) - 1
    for e in entries:
        e["sids"] = []
        if e["kind"] in ("bin", "pre") and e["names"]:
            for nm in e["names"]:
                name = nm["name"] if isinstance(nm["name"], str) else None
                e["sids"].append(add_sp(e["idx"], nm["words"], name, "main"))
        elif e["kind"] == "tern" and e["names"]:
            for nm in e["names"]:
                name = nm["name"] if isinstance(nm["name"], str) else None
                e["sids"].append(add_sp(e["idx"], nm["words"], name, "main"))
    # the partner word of ternaries is a spelling of the entry where that op is the main operator
    # ---- names
    names = sorted({s["name"] for s in spell if s["name"]} | {"missing", "exists"} | set(t["formatter_ops"]))
    nid = {n: i for i, n in enumerate(names)}
    # ---- fold table by probing
    import impl
    fold = {}
    for s in spell:
        e = entries[s["entry"]]
        if e["kind"] != "bin" or not s["name"]:
            continue
        st, v = impl.outcome(impl.M.parse, "select x1 %s null from t" % " ".join(s["words"]))
        if st == "ok":
            val = v["select"]["value"]
            if isinstance(val, dict) and len(val) == 1:
                (k, a), = val.items()
                if a == "x1" and k != s["name"]:
                    if fold.setdefault(s["name"], k) != k:
                        raise ExtractError("inconsistent NULL folding for %s" % s["name"])
    # ---- formatter vocabulary
    def find_spelling(words, kind=None):
        c = [i for i, s in enumerate(spell) if s["words"] == words and (kind is None or entries[s["entry"]]["kind"] == kind)]
        return c
    vocab = {}
    arities = {}
    cand = {}
    for s in spell:
        if s["name"]:
            cand.setdefault(s["name"], entries[s["entry"]]["kind"])
    cand["missing"] = "null"
    cand["exists"] = "null"
    probe_names = []
    for name, kind in sorted(cand.items()):
        meth = getattr(Formatter, "_" + name, None)
        if meth is None:
            continue            # rendered as NAME(args): operands protected by the call brackets
        ar = {"pre": 1, "bin": 2, "tern": 3, "null": 1}[kind]
        if name in t["formatter_ops"] and not t["formatter_ops"][name]["ordered"]:
            ar = 3
        arities[name] = ar
        probe_names.append(name)
    try_names = [n for n in probe_names if n not in UNPROBEABLE]
    ctx_raw = context_precs(raw=True)
    beh, precs = X.formatter_behaviour(try_names, arities, ctx_raw.values())
    # 2-operand behaviour of the n-ary operators must equal their 3-operand behaviour
    nary = [n for n in try_names if arities[n] == 3 and cand[n] == "bin"]
    beh2, _ = X.formatter_behaviour(nary, {n: 2 for n in nary}, ctx_raw.values())
    info = {}
    for name in try_names:
        kind = cand[name]
        b100 = beh[name][100]
        txt = b100["text"]
        import re
        parts = re.split(r"<K\d>", txt)
        if kind == "pre":
            w = words_of(parts[0].replace("(", " "))
            sids = find_spelling(w, "pre")
            k = "KPre"
        elif kind == "null":
            w = words_of(parts[1].replace(")", " "))
            if not w or w[-1] != "null":
                raise ExtractError("renderer of %s does not end in NULL: %r" % (name, txt))
            sids = find_spelling(w[:-1], "bin")
            k = "KBinNull"
        elif kind == "tern":
            w = words_of(parts[1])
            sids = find_spelling(w, "tern")
            k = "KTern"
        else:
            w = words_of(parts[1].split("(")[0] if name in ("in", "nin") else parts[1])
            sids = find_spelling(w, "bin")
            k = "KNary" if name in nary else "KBin"
        sids = [s for s in sids if spell[s]["name"] == name or kind == "null"]
        if len(sids) != 1:
            raise ExtractError("formatter spelling %r of %s matches %d parser spellings" % (w, name, len(sids)))
        sid = sids[0]
        if kind == "null" and fold.get(spell[sid]["name"]) != name:
            raise ExtractError("IS-NULL renderer of %s written with an operator that does not fold to it" % name)
        ratom = name in ("in", "nin")
        if name in nary:
            for p in precs:
                a, b = beh[name][p], beh2[name][p]
                if a["selfp"] != b["selfp"] or a["slots"][0] != b["slots"][0] or a["slots"][1] != b["slots"][1] or a["slots"][1] != a["slots"][2]:
                    raise ExtractError("n-ary renderer of %s is not uniform in its operands" % name)
        info[name] = dict(kind=k, lvl=spell[sid]["entry"], sp=sid, sp2=None, ratom=ratom)
        if kind == "tern":
            w2 = words_of(parts[2])
            # partner spelling: a spelling whose words are w2, on the entry where that operator is main
            c2 = [i for i, s in enumerate(spell) if s["words"] == w2 and entries[s["entry"]]["kind"] == "bin"]
            if len(c2) != 1:
                raise ExtractError("ternary partner %r ambiguous" % w2)
            info[name]["sp2"] = c2[0]
    # context precedences with which the statement-level formatter renders an expression in each clause position
    ctx = context_precs()
    return dict(entries=entries, spell=spell, names=names, fold=fold, info=info, beh={n: {str(dbl(p)): dict(selfp=v["selfp"], slots=[[dbl(a), bool(w)] for a, w in v["slots"]]) for p, v in d.items()} for n, d in beh.items()},
                precs=[dbl(p) for p in precs], flatten=t["flatten"], binary_ops=t["binary_ops"], precedence=t["precedence"],
                formatter_ops=t["formatter_ops"], ctx=ctx, grammar_nodes=t["grammar_nodes"], opaque_with_method=sorted(set(probe_names) - set(try_names)))


def context_precs(raw=False):
    """the prec with which an expression is dispatched as select item / WHERE / HAVING / ON / function argument / ORDER BY / GROUP BY"""
    from mo_sql_parsing.formatting import Formatter
    K = "\x01CTX\x02"
    out = {}
    trees = {
        "select": {"select": {"value": K}, "from": "t"},
        "where": {"select": {"value": "a"}, "from": "t", "where": K},
        "having": {"select": {"value": "a"}, "from": "t", "groupby": {"value": "a"}, "having": K},
        "on": {"select": {"value": "a"}, "from": ["t", {"join": "u", "on": K}]},
        "arg": {"select": {"value": {"f": [K, "b"]}}, "from": "t"},
        "orderby": {"select": {"value": "a"}, "from": "t", "orderby": {"value": K}},
        "groupby": {"select": {"value": "a"}, "from": "t", "groupby": {"value": K}},
    }
    for pos, tree in trees.items():
        f = Formatter()
        real = Formatter.dispatch
        seen = []

        def dispatch(json, prec=100, _seen=seen):
            if json == K:
                _seen.append(prec)
                return "K"
            return real(f, json, prec)

        f.dispatch = dispatch
        f.dispatch(tree)
        if len(set(seen)) != 1:
            raise ExtractError("context %s dispatches the expression with precs %r" % (pos, seen))
        out[pos] = seen[0] if raw else dbl(seen[0])
    return out


def coq_tables(T):
    L = []
    A = L.append
    A("(* GENERATED by harness/regen.py from /repo's working tree -- do not edit *)")
    A("From Coq Require Import List String Bool.")
    A("From MoSql Require Import Model.Infix Model.Expr Model.Fmt.")
    A("Import ListNotations.")
    A("Open Scope string_scope. Open Scope list_scope.")
    ent = []
    for e in T["entries"]:
        k = e["kind"]
        ent.append({"pre": "EPre %d", "suf": "ESuf %d", "bin": "EBin %d"}[k] % e["ops"][0] if k != "tern" else "ETern %d %d" % tuple(e["ops"]))
    A("Definition tbl : list entry := [%s]." % "; ".join(ent))
    A("Definition names : list string := [%s]." % "; ".join(cstr(n) for n in T["names"]))
    nid = {n: i for i, n in enumerate(T["names"])}
    A("Definition spellings : list (nat * list string * option nat) := [%s]." % "; ".join(
        "(%d, [%s], %s)" % (s["entry"], "; ".join(cstr(w) for w in s["words"]), ("Some %d" % nid[s["name"]]) if s["name"] in nid else "None") for s in T["spell"]))
    A("Definition name_of_tbl : list (nat * nat) := [%s]." % "; ".join("(%d, %d)" % (i, nid[s["name"]]) for i, s in enumerate(T["spell"]) if s["name"] in nid))
    A("Definition flat_names : list nat := [%s]." % "; ".join(str(nid[n]) for n in T["flatten"] if n in nid))
    A("Definition fold_tbl : list (nat * nat) := [%s]." % "; ".join("(%d, %d)" % (nid[a], nid[b]) for a, b in sorted(T["fold"].items())))
    A("Definition info_tbl : list (nat * opinfo) := [%s]." % ";\n  ".join(
        "(%d, {| kind := %s; lvl := %d; sp := %d; sp2 := %d; ratom := %s |})" % (nid[n], i["kind"], i["lvl"], i["sp"], i["sp2"] or 0, "true" if i["ratom"] else "false")
        for n, i in sorted(T["info"].items(), key=lambda kv: nid[kv[0]])))
    A("Definition precs : list nat := [%s]." % "; ".join(map(str, T["precs"])))
    rows = []
    for n, d in sorted(T["beh"].items(), key=lambda kv: nid[kv[0]]):
        inner = "; ".join("(%s, (%s, [%s]))" % (p, "true" if v["selfp"] else "false", "; ".join("(%d, %s)" % (a, "true" if w else "false") for a, w in v["slots"]))
                          for p, v in sorted(d.items(), key=lambda kv: int(kv[0])))
        rows.append("(%d, [%s])" % (nid[n], inner))
    A("Definition beh_tbl : list (nat * list (nat * (bool * list (nat * bool)))) := [%s]." % ";\n  ".join(rows))
    A("Definition ctx_precs : list (string * nat) := [%s]." % "; ".join('(%s, %d)' % (cstr(k), v) for k, v in sorted(T["ctx"].items())))
    A("Definition precedence_tbl : list (string * nat) := [%s]." % "; ".join("(%s, %d)" % (cstr(k), dbl(v)) for k, v in sorted(T["precedence"].items()) if v >= 0))
    A("Definition binary_ops_tbl : list (string * string) := [%s]." % "; ".join("(%s, %s)" % (cstr(k), cstr(v)) for k, v in sorted(T["binary_ops"].items())))
    return "\n".join(L) + "\n"


def main():
    os.makedirs(GEN, exist_ok=True)
    try:
        import extract_api
        extract_api.main()
    except Exception as e:
        # the API shape translator fails closed on its own (C15-C17 report it); a stale ApiShape.v must not survive silently
        write_if_changed(GEN + "/ApiShape.v", "(* translator failed closed: %s *)\nFrom MoSql Require Import Model.Api.\nDefinition parse_shape : list effect := nil.\n"
                         "Definition entry_points : list (String.string * String.string * bool) := nil.\nDefinition all_locked : bool := false.\n"
                         "Definition cache_keyed_by_both : bool := false.\nDefinition fresh_default_null : bool := false.\nDefinition formatter_writes : list String.string := nil.\n" % str(e).replace("*", "x")[:300])
    try:
        import extract_grammar
        extract_grammar.build()
    except Exception as e:
        # the grammar translator fails closed (C09 / C18 report it): empty tables keep the rest of the development building
        names = ["common", "common_star", "mysql", "mysql_star", "sqlserver", "sqlserver_star", "bigquery", "bigquery_star"]
        write_if_changed(GEN + "/Grammar.v", "(* translator failed closed: %s *)\nFrom Coq Require Import List NArith.\nFrom MoSql Require Import Model.Peg.\nImport ListNotations.\nLocal Open Scope N_scope.\n" % str(e).replace("*", "x")[:300]
                         + "".join("Definition T_%s : table := [].\nDefinition root_%s : N := 0.\nDefinition w0_%s : N := 0.\n" % (n, n, n) for n in names)
                         + "".join("Definition R_%s : list (N * N) := [].\nDefinition EQN_%s : list (N * N) := [].\n" % (n, n) for n in names if not n.startswith("common"))
                         + "Definition DT : list N := [].\nDefinition WS_AWARE : list N := [].\nDefinition WS_NONE : list N := [].\n")
        write_if_changed(GEN + "/grammar.json", json.dumps(dict(error=str(e)[:500])))
    T = build_l1()
    changed = write_if_changed(GEN + "/Tables.v", coq_tables(T))
    write_if_changed(GEN + "/tables.json", json.dumps(T, indent=1, sort_keys=True, default=str))
    return T, changed


if __name__ == "__main__":
    T, ch = main()
    print("Tables.v", "rewritten" if ch else "unchanged", "| entries", len(T["entries"]), "spellings", len(T["spell"]), "names", len(T["names"]),
          "formatter infix vocabulary", sorted(T["info"]), "ctx", T["ctx"])
