# L0 correspondence: lexical models (Model/Lit.v, Model/Num.v, Model/Ident.v, Model/Script.v) against the implementation's functions.
import re, itertools
from common import *


def cs(s):
    return cpoints(s)


def cres(r):
    """('ok', str) | ('err',) -> Coq res str"""
    return "(Ok %s)" % cs(r[1]) if r[0] == "ok" else "Err"


def run_checks(ctx, name, header, checks, shard=1500):
    """checks: list of Coq boolean expressions.  Returns indices of the false ones (or None, log)."""
    import concurrent.futures as cf
    shards = [checks[i:i + shard] for i in range(0, len(checks), shard)]

    def one(i):
        body = header + "\nDefinition checks : list bool := [\n" + ";\n".join(shards[i]) + "\n].\n"
        body += "Fixpoint failing (i : nat) (l : list bool) : list nat := match l with [] => [] | b :: t => (if b then [] else [i]) ++ failing (S i) t end.\n"
        body += "Eval vm_compute in (failing 0 checks).\n"
        ok, out = ctx.coq_eval("%s_%d" % (name, i), body)
        if not ok:
            return i, None, out
        m = re.search(r"=\s*\[(.*?)\]\s*:\s*list nat", out, re.S)
        if not m:
            return i, None, out
        b = m.group(1).strip()
        return i, ([int(x.replace("%nat", "")) for x in b.replace("\n", " ").split(";") if x.strip()] if b else []), out

    bad = []
    with cf.ThreadPoolExecutor(max_workers=min(NCPU, 12)) as ex:
        for i, idx, out in ex.map(one, range(len(shards))):
            if idx is None:
                return None, out
            bad.extend(i * shard + j for j in idx)
    ctx.checker_cmds.append("coqc -Q coq MoSql <generated case files> (Eval vm_compute)")
    return bad, ""


def strings(alphabet, maxlen):
    for L in range(maxlen + 1):
        for tup in itertools.product(alphabet, repeat=L):
            yield "".join(tup)
