# Access to the implementation under /repo (always the current working tree).
import warnings
warnings.filterwarnings("ignore")
import sys, json, threading
sys.path.insert(0, "/repo")
import mo_sql_parsing as M

assert M.__file__.startswith("/repo/"), M.__file__
from mo_parsing import ParseException
from mo_parsing.results import ParseResults, Annotation, ForwardResults
from mo_parsing.enhancement import Group, Suppress, Forward

ENTRY = {
    "common_parser": M.parse,
    "mysql_parser": M.parse_mysql,
    "sqlserver_parser": M.parse_sqlserver,
    "bigquery_parser": M.parse_bigquery,
}
DIALECTS = list(ENTRY)


def build_all():
    """create the eight cached parsers (so that later monkeypatching of M.scrub is not overwritten)"""
    for n in M.lookup_parsers:
        for a in (None, "*"):
            M._get_or_create_parser(n, a)
    from mo_sql_parsing import utils as U
    return U


def outcome(f, *a, **kw):
    """('ok', value) | ('pe', position) | ('exc', type name)"""
    try:
        return ("ok", f(*a, **kw))
    except ParseException as e:
        return ("pe", getattr(e, "start", None))
    except RecursionError:
        return ("exc", "RecursionError")
    except Exception as e:
        return ("exc", type(e).__name__)


def corpus(dedupe=True):
    seen, out = set(), []
    for l in open("/verif/corpus/calls.jsonl"):
        d = json.loads(l)
        if not d["parser"]:
            continue
        key = (d["parser"][0], d["sql"])
        if dedupe and key in seen:
            continue
        seen.add(key)
        out.append(dict(parser=d["parser"][0], sql=d["sql"], calls=d["calls"], null=d["null"], fmap=d["fmap"]))
    return out


# ----------------------------------------------------------------------------------------------
# dump of a raw parse result into the closed universe that Model/Raw.v describes.  A ParseResults is dumped
# as what scrub OBSERVES of it: truthiness (result == None), list(result.items()), list(result).
class OutsideUniverse(Exception):
    pass


def dump_raw(x, U, depth=0):
    if depth > 400:
        raise OutsideUniverse("too deep")
    if x is U.SQL_NULL:
        return ("mark",)
    if x is None:
        return ("none",)
    if x is True or x is False:
        return ("bool", x)
    if isinstance(x, int):
        return ("int", x)
    if isinstance(x, float):
        return ("float", x)
    if isinstance(x, str):
        return ("str", x)
    if isinstance(x, bytes):
        return ("str", x.decode("utf8"))
    if isinstance(x, U.Call):
        return ("call", x.op, dump_raw(x.args, U, depth + 1), dump_raw(x.kwargs, U, depth + 1))
    if isinstance(x, ParseResults):
        truthy = bool(x)
        if not truthy:
            return ("pr", False, [], [])
        named = [(k, [dump_raw(v, U, depth + 1) for v in vs]) for k, vs in x.items()]
        flat = [dump_raw(v, U, depth + 1) for v in x]
        return ("pr", True, named, flat)
    if type(x) is dict:
        return ("dict", [(k, dump_raw(v, U, depth + 1)) for k, v in x.items()])
    if type(x) in (list, tuple):
        return ("list", [dump_raw(v, U, depth + 1) for v in x])
    raise OutsideUniverse(type(x).__name__)


class RawCapture:
    """with RawCapture() as cap: parse(...) ; cap.raws = raw results handed to scrub by _parse (top level calls only)"""

    def __init__(self):
        self.U = build_all()
        self.raws = []

    def __enter__(self):
        self.real = M.scrub
        real = self.real

        def wrapped(r):
            self.raws.append(r)
            return real(r)

        M.scrub = wrapped
        return self

    def __exit__(self, *a):
        M.scrub = self.real
