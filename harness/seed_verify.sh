#!/bin/bash
# seed_verify.sh <seed name> <property> <worktree> <demo file name> "<needs>"   -> /verif/seeded/<name>/{patch.diff,demo.py,meta.json}
NAME=$1; PID=$2; WT=$3; DEMO=$4; NEEDS=$5
D=/verif/seeded/$NAME; mkdir -p $D
git -C $WT diff > $D/patch.diff
cp $WT/$DEMO $D/demo.py
T=$(mktemp -d /tmp/sv.XXXX); cp $D/demo.py $T/demo.py
TESTS=$(cd $WT && PYTHONPATH=$WT /venv/bin/python -m pytest -q -p no:cacheprovider 2>&1 | tail -1)
(cd $T && PYTHONPATH=$WT timeout 600 /venv/bin/python demo.py > $T/mut.out 2>&1); RC_MUT=$?
(cd $T && PYTHONPATH=/repo timeout 600 /venv/bin/python demo.py > $T/orig.out 2>&1); RC_ORIG=$?
python3 - "$NAME" "$PID" "$NEEDS" "$TESTS" "$RC_MUT" "$RC_ORIG" "$T" <<'PY'
import json,sys
name,pid,needs,tests,rcm,rco,t=sys.argv[1:]
meta=dict(name=name, breaks_property=pid, needs_to_manifest=needs, test_suite_with_patch=tests,
  demo_exit_with_patch=int(rcm), demo_exit_without_patch=int(rco),
  demo_output_with_patch=open(t+'/mut.out').read()[-1500:],
  ran=["git -C <scratch worktree> diff > patch.diff", "pytest -q in the scratch worktree with the patch", "demo.py with PYTHONPATH=<patched worktree> (expect exit 1)", "demo.py with PYTHONPATH=/repo (expect exit 0)"],
  confirmed=(int(rcm)==1 and int(rco)==0 and tests.startswith("1231 passed")))
json.dump(meta, open('/verif/seeded/%s/meta.json'%name,'w'), indent=1)
print(name, 'confirmed' if meta['confirmed'] else 'NOT CONFIRMED', tests, rcm, rco)
PY
rm -rf $T
